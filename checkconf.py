# Per-property configuration of the ./check driver.
# groups: test binaries to build and run; shards: processes per tier (each gets its own rapid seed).

def g(name, pkg, q=4, t=16, **kw):
    d = {"name": name, "pkg": pkg, "shards": {"quick": q, "thorough": t}}
    d.update(kw)
    return d

PROPS = {
    "C01": {
        "level": "exploration",
        "groups": [g("main", "c01", q=12, t=32, run="^Test(Regress|Known.*|Prop)$", gomaxprocs=[1, 2, 4, 16])],
        "timeout": {"quick": 300, "thorough": 1800},
        "rule": ("generated: codec{proto,json} x QoS{unreliable,reliable,partial} x flush policy{none,interval 1-20ms,size 0-64B,interval-or-size,immediate} "
                 "x 0-3 pre-registered data ids (aliases in the open response: all/some/none) x 1-4 concurrent writer programs of up to 25 ops "
                 "(write 0-4 points with payload sizes 0..64KiB to pooled or fresh ids, flush, yield, sleep) x broker ack plan {immediate,batched,reordered,"
                 "duplicated} x alias assignment {never,first sight,later,partial} x result codes (success or any failure code); then Close. "
                 "Oracle: broker ledger decoded through the alias table the broker itself published == accepted multiset, per writer/id order, seq 1..N, "
                 "close totals, no chunk after close request, send hook == transmitted content once, ack hook once with the broker's code, DataIDs list. "
                 "Non-trivial = >=2 chunks and (alias substituted in a later chunk, or >=2 writers, or explicit Flush under a cutting policy, or batched/"
                 "reordered acks); distinct by case hash. Added after the seeded campaign: every writer passes sub-slices of one backing array (capacity reaching into later writes); in a quarter of the cases Close is called from another goroutine 1-2500 us after the writers started (writes that return nil count as accepted)."),
        "assumptions": ["sim link is loss-free FIFO per direction", "hooks are matched 200 ms after Close returned so late is told apart from lost",
                        "result codes 2 (NormalClosure, wire alias of Succeeded) and 30 (TooShortPingInterval, C11's finding) are not sent by the scripted broker"],
    },
    "C18": {
        "level": "fault_enumeration",
        "groups": [g("main", "c18", q=8, t=32, run="^Test(Regress|Prop)$", gomaxprocs=[4, 1, 2, 16])],
        "timeout": {"quick": 300, "thorough": 1800},
        "rule": ("generated: scripted underlying dialer: 1-4 connection plans {reconnect handshake present/error, fail the n-th write, break after r "
                 "inbound reads, inbound messages incl. control pings}, failing dial attempts, budget exhaustion (every further dial fails) or a "
                 "healthy last connection, MaxReconnectAttempts 1-3, 1-4 concurrent writers with up to 10 tagged writes each, one reader, Close at "
                 "the end or after k accepted writes. Oracle from the per-connection accepted-write logs: exactly-once for nil returns, at-most-once "
                 "for errors, per-writer order across connections, transport id + reconnect flag of every dial, Read == delivered inbound in order, "
                 "pings filtered and answered by pongs, every pending/later Read/Write errors within 3 s after exhaustion or Close. Non-trivial = a "
                 "redial with >= 2 writers, a failed dial attempt, or exhaustion; distinct by case hash. Added after the seeded campaign: connections whose Close reports an error; no redial after Close; clause order-of-issue (a message already being written before another Write was called is accepted first). Round 3: connections whose Write is accepted at once and returns 0.2-3 ms later (reads fail and redials happen meanwhile); after the transport gave up by itself, further Reads return buffered messages and then errors, never block."),
        "assumptions": ["quiescence is only declared when the newest connection is settled (not broken, handshake done); reaching it later than 2 s is counted as timing_inconclusive, never reaching it within 22 s is judged", "an underlying Write that returns an error did not deliver the message", "a redialled connection delivers one handshake message first (consumed by the library)",
                        "a Read after Close may still return messages that were already buffered (finite), then must error"],
    },
    "C19": {
        "level": "exploration",
        "groups": [g("main", "c19", q=8, t=32, run="^Test(Regress|Prop)$", gomaxprocs=[4, 1, 2, 16])],
        "timeout": {"quick": 300, "thorough": 1800},
        "rule": ("generated: 1-5 scripted member transports; scheduler in {event channel, NIC subscriber (known/unknown NIC names), polling with a "
                 "scripted poller, real RoundRobinPoller, real LastUsedPoller}; initial id valid / foreign / empty; histories of up to 25 ops "
                 "{emit(member | foreign | empty id), write, member delivers a message, read, AsUnreliable, NegotiationParams, counters}. After emitting a "
                 "member id the model waits until NegotiationParams reports it; after a foreign/empty id only survival is required and the previous "
                 "member stays selected. Oracle: write log of the selected member, exactly one member per write, merged reads (multiset + per-member "
                 "order), Close fan-out, counter sums, no panic/hang in any call. Non-trivial = >=2 members with a selection change between writes, "
                 "or a foreign/empty id (initial or emitted); distinct by case hash. Added after the seeded campaign: members whose Close reports an error (bit mask); Close still reaches every member."),
        "assumptions": ["selection is applied asynchronously; routing is only predicted after the selection became visible through NegotiationParams",
                        "with the real RoundRobin/LastUsed pollers the selected member at write time is not predictable; there only 'exactly one member' is checked"],
    },
    "C20": {
        "level": "exploration",
        "groups": [g("main", "c20", q=8, t=32, run="^Test(Regress|Single|Concurrent|Interval)$", gomaxprocs=[4, 1, 2, 16])],
        "timeout": {"quick": 300, "thorough": 1800},
        "rule": ("generated: (single) one goroutine, deterministic policy {none, size n in {0,1,7,16,40,64}, immediate} x programs of up to 30 ops "
                 "{write 0-3 points with payload sizes straddling the threshold and zero-length payloads over 6 data ids, flush, flush with an already "
                 "cancelled context, state snapshot, wait}; oracle = predicted chunk partition (each cancelled flush may or may not cut: all 2^k "
                 "predictions tried), barrier, conservation, no early transmission, no empty chunk. (concurrent) 2-4 such programs under any policy: "
                 "barrier per goroutine, conservation bound, no empty chunk. (interval) interval / interval-or-size policies: latency from Write "
                 "return to arrival <= interval + 2 s slack. Non-trivial = a write crossing the threshold with earlier data buffered, a state action "
                 "right after a write, or flushes from concurrent goroutines; distinct by case hash. Added after the seeded campaign: interval cases with a link cut and resume before the k-th write (the interval promise holds for what is written after the resume)."),
        "assumptions": ["broker acknowledges every chunk immediately", "a Flush with an already cancelled context may legitimately cut or not cut (Go select picks at random); both are accepted",
                        "interval latency is judged with 2 s slack; a miss is reported only if it exceeds interval + slack"],
    },
    "C02": {
        "level": "fault_enumeration",
        "groups": [g("main", "c02", q=16, t=32, run="^Test(Regress|Prop|CloseOutage)$", gomaxprocs=[4, 2, 4, 16])],
        "parallel": 16,
        "timeout": {"quick": 900, "thorough": 3600},
        "rule": ("generated: one reliable upstream (both codecs, every flush policy, default or payload-retaining sent storage), 1-3 concurrent writer "
                 "programs that keep writing through the outages, broker ack plan {immediate, batched, reordered, duplicated; alias assignment}; 1-3 "
                 "failures positioned on the message stream: the n-th chunk of a connection is received but not acknowledged / acknowledged and then "
                 "the link dies, idle cut, cut on the resume request / after the resume response, cut during the redial handshake; per failure a "
                 "subset of earlier chunks whose acks are withheld; resume answered with 0-2 conflicts first, or refused; instant or paced redial. "
                 "After the last failure the broker acknowledges everything; the case waits for quiescence (every announced chunk received and "
                 "acknowledged, ledger quiet), then Close. Oracle: per sequence number all receptions across connections have equal content (payloads "
                 "included); every chunk announced to the send hook reached the broker with equal content; every accepted point is in an announced "
                 "chunk; resume requests carry the original stream id and chunks the alias of that connection; close totals; a stream reported "
                 "closed (closed event with error / stream-closed write error) carries no further obligation. Non-trivial = a cut with an "
                 "unacknowledged chunk or withheld acks, a cut inside a resume exchange, or >= 2 failures that fired; distinct by case hash. Added after the seeded campaign: a neighbour upstream (unreliable or partial QoS) on the same connection with its own traffic, resumed side by side; idle cuts that fire only after the unacknowledged chunks have waited 1.3 s for their acks; clause C02.6 (a chunk received only on connections that died and never acknowledged is sent again after the resume); sub-check close-across-outage: 1-5 chunks, 0..n-1 of them acknowledged, Close started, link cut 0-20 ms later - Close returns nil with everything retransmitted and exact totals, or the stream is reported closed. Round 3: streams opened with an ack timeout (1 or 10 min, never expiring within a case); half-open cuts (client writes fail, reads keep blocking, the link dies for good 30 ms later); a final write+flush before Close and clause C02.8 (with the connection back a stream is resumed or reported closed - the write works or fails with the stream-closed error, it does not run into its deadline)."),
        "assumptions": ["AckTimeout 0 (an ack timeout legitimately drops a stored chunk)", "'eventually' = bounded: 6 s (+1 s per conflict) for quiescence",
                        "planned cuts are positioned by per-connection chunk ordinals; evidence records planned vs fired cuts"],
    },
    "C03": {
        "level": "exploration",
        "groups": [g("main", "c03", q=12, t=32, run="^Test(Prop)$", gomaxprocs=[4, 1, 2, 16])],
        "timeout": {"quick": 300, "thorough": 1800},
        "rule": ("generated: one downstream (QoS any, 0-3 pre-registered data ids, 1-3 source-node filters, ack flush 1-10 ms, both codecs) with a keeping-up consumer (optionally slowed); broker script of up to 60 items over 1-5 upstreams and 1-8 data ids: chunks whose upstream and data ids are sent in full or alias form depending on what the client has announced SO FAR (alias as soon as announced, still full after the announcement, full again before the alias was acknowledged), metadata of all 9 kinds from subscribed sources, pauses around the ack flush interval, and (labelled) chunks using an upstream / data-id alias the client never announced. Oracle: ReadDataPoints results == the broker's "
                 "sent list resolved through the client's own announcements (order, seq, upstream info, data ids, elapsed times, payloads), unknown "
                 "alias -> error and no delivery, ReadMetadata per source in order + exactly one DownstreamMetadataAck per item. Non-trivial = (>=2 "
                 "upstreams or >=3 data ids) and at least one switch from full form to alias after the announcement; distinct by case hash. Added after the seeded campaign: a third of the cases run over a connection that also has a datagram transport (QoS reliable/partial there). Round 3: polling consumers (every ReadDataPoints gets a context of 1/50/300 us, a context error means poll again)."),
        "assumptions": ["the consumer keeps up: at most 200 unread items, far below the documented 1024-item buffers",
                        "the broker only uses aliases it has received in a DownstreamChunkAck (or the open request)"],
    },
    "C04": {
        "level": "exploration",
        "groups": [g("main", "c04", q=12, t=32, run="^Test(Regress|Prop)$", gomaxprocs=[4, 1, 2, 16])],
        "timeout": {"quick": 300, "thorough": 1800},
        "rule": ("generated: one downstream (QoS any, 0-3 pre-registered data ids, 1-3 source-node filters, ack flush 1-10 ms, both codecs) with a keeping-up consumer (optionally slowed); broker script of up to 60 items over 1-5 upstreams and 1-8 data ids: chunks whose upstream and data ids are sent in full or alias form depending on what the client has announced SO FAR (alias as soon as announced, still full after the announcement, full again before the alias was acknowledged), metadata of all 9 kinds from subscribed sources, pauses around the ack flush interval; Close either after the acks settled or immediately after the last read (pending results). Oracle over the DownstreamChunkAck "
                 "ledger: ack ids 1,2,3,...; results == chunks returned by ReadDataPoints exactly once with the right upstream stream id and seq; "
                 "alias<->upstream and alias<->data id are bijections (pre-registered ids included) and every full-form first sight is announced; "
                 "all acks precede the DownstreamCloseRequest. Non-trivial = the same upstream sent in full form again before its alias was "
                 "acknowledged or after it was announced, or a Close with pending results; distinct by case hash. Added after the seeded campaign: 1, 2 or 4 goroutines read the downstream concurrently; a quarter of the cases over a datagram-capable connection. Round 3: ack flush interval of 60 s with a Close deadline of 1.5 s (everything rides on the flush that Close triggers); the order on the wire (nothing after the close request) is judged also when Close fails."),
        "assumptions": ["the resume part of the quantifier (acks across a link failure) is exercised by C05/C07 scenarios; results buffered on a dead link are a recorded limitation there"],
    },
    "C05": {
        "level": "fault_enumeration",
        "groups": [g("main", "c05", q=16, t=32, run="^Test(Regress|Known.*|Prop)$", gomaxprocs=[4, 2, 4, 16])],
        "parallel": 16,
        "timeout": {"quick": 900, "thorough": 3600},
        "rule": ("generated: 0-4 upstreams and 0-4 downstreams (all QoS) open with light traffic; 1-3 outages, each: the established link is cut "
                 "(after everything the broker sent was delivered), 0-2 redials are cut during the connect handshake, 0-2 dial attempts fail first "
                 "(slow redial), optionally the resume exchange of a chosen stream is cut before/after its response, or refused (StreamNotFound), or "
                 "answered with 1-2 RESUME_REQUEST_CONFLICTs first, optionally a back-to-back second failure 0-3 messages after recovery; API calls "
                 "(open upstream/downstream, metadata, call, write, read; 3 s contexts) started right before the cut and during the outage; redial "
                 "instant or paced (6 ms). Oracle: fresh token per ConnectRequest and one token-source call per dial attempt; after recovery every "
                 "stream either resumed (original id; downstreams original alias; at most one successful resume per connection) or - only if its "
                 "resume was refused or a re-established connection died before its resume exchange had settled - is reported closed; surviving "
                 "streams work (probe write reaches the broker on the new connection / probe chunk is read): never silently detached; requests "
                 "around the failure succeed; one disconnected / reconnected event per lost / re-established connection and one resumed event per "
                 "successful resume. Non-trivial = calls around the failure, a failure during a redial handshake or a resume exchange, or >= 2 "
                 "outages with >= 2 streams; distinct by case hash. Round 3: redials that hand back a transport that is already dead (the first handshake write fails), at most 4 failing attempts per outage; after recovery every downstream is probed with a metadata item as well as a chunk."),
        "assumptions": ["a request that runs into its own deadline is a violation only if an established connection stayed up for more than 500 ms within the request's lifetime (scripted outages can outlast a 3 s deadline on a loaded machine); detachment is probed up to 8 times on the current-or-newer connection; event counts wait up to 3 s for late handlers", "scripted cuts happen after the client has read everything the broker sent (same cut position in both views)",
                        "a resume response sent less than 5 ms before the connection died may lose the race against the connection error: counts as a cut resume exchange",
                        "keepalive interval 20 ms, ping timeout 1.5 s (a severed link fails the next ping write at once, a slow pong under load must not fake an outage)",
                        "known findings C05-call-not-resent and C05-spurious-reconnect (instant redial only) are neutralised for exactly their shape and counted as excluded_known"],
    },
    "C06": {
        "level": "exploration",
        "groups": [g("main", "c06", q=8, t=32, run="^Test(Prop)$", gomaxprocs=[4, 1, 2, 16])],
        "timeout": {"quick": 300, "thorough": 1800},
        "rule": ("generated: wire.Connect over an in-memory link (both codecs), keepalive pings every 2 ms; 2-32 concurrent callers with a mix of upstream/"
                 "downstream open, resume, close and metadata requests, issued for 1-3 rounds on the same connection; the scripted peer collects all "
                 "requests of a round, then answers in a generated permutation with generated delays, each response carrying a marker derived from "
                 "the request id; extras: responses for ids never issued (odd, huge), second copies of answered ids, cancellation of callers before "
                 "the request is written / while waiting / racing with the answer. Oracle: ids at the peer pairwise distinct and even (connect and "
                 "pings included); a nil return holds the response with the caller's own id and marker and the peer saw that id from that caller; "
                 "cancelled callers get their context error; nobody else is disturbed; all return. Non-trivial = >= 3 requests outstanding and "
                 "answered out of order; distinct by case hash."),
        "assumptions": ["a caller cancelled a moment before the broker answers may return either its context error or its own response (never another caller's)", "type-confused responses (right id, wrong type) belong to C12", "a caller cancelled while its answer is in flight may return either its context error or its own response"],
    },
    "C07": {
        "level": "exploration",
        "groups": [g("main", "c07", q=12, t=32, run="^Test(Regress|Storage|Conn)$", gomaxprocs=[4, 2, 1, 16])],
        "timeout": {"quick": 600, "thorough": 3000},
        "rule": ("generated: (storage, model-based) op sequences {store, remove, list, clear} over 2-4 stream ids and small sequence numbers on both "
                 "storage flavours, sequentially (the model is checked for EVERY stream after EVERY op) and concurrently (one goroutine per stream: "
                 "operations on different streams must commute); (connection) 1-4 bystander upstreams (QoS mix) writing marked points and 0-3 "
                 "bystander downstreams reading chunks marked for them, while victim operations run on the same connection (open+close upstream/"
                 "downstream, refused opens, metadata) and, in a third of the cases, one link failure with acks of trailing chunks withheld so that "
                 "reliable and non-reliable upstreams resume side by side. Oracle: every bystander satisfies its single-stream oracle as if alone "
                 "(all cut chunks arrive with its own content under its own alias, close totals, reads complete and in order), every ack result and "
                 "every chunk delivered carries the receiving stream's own marker, sent storage empty per stream when all was acknowledged. "
                 "Non-trivial = a clear/remove on one stream while another holds entries, concurrent storage goroutines, victims next to >= 2 "
                 "bystanders, or an outage with reliable + non-reliable upstreams; distinct by case hash. Added after the seeded campaign: victim dead-down-flood (a downstream whose close request is never answered, then 1300 chunks to its alias); the broker hands closed upstreams' stream aliases out again (reuse_aliases) and late bystander upstreams are opened behind a pilot stream that was acknowledged once and closed; victims configure their own ack interval/expiry; clauses ack-lost (every result the broker addressed to a stream reaches its hook) and configuration-leak (open request and Config of a stream opened with defaults). Round 3: victim stray-metadata (metadata for a bystander alias from a source node nobody subscribed to, then an ordinary open/close of another downstream); bystanders on the library default flush policy that never call Flush (clause bystander-held: accepted points are transmitted within 100 ms + 2.5 s); clause streams-blocked."),
        "assumptions": ["a non-reliable upstream may lose what was in flight at a link failure; a reliable one may not", "the consumer keeps up (far below the 1024-item buffers)"],
    },
    "C08": {
        "level": "fault_enumeration",
        "groups": [g("main", "c08", q=16, t=32, run="^Test(Regress|Enumerate|Prop)$", gomaxprocs=[4, 2, 4, 16])],
        "parallel": 16,
        "timeout": {"quick": 600, "thorough": 3000},
        "rule": ("enumerated: 10 API scenario templates (reliable/unreliable upstream open-write-flush-close, downstream open-read-readmeta-close, metadata, "
                 "call / call-and-wait / reply-call / receive, connection close with streams left open, and parallel pairs) x every client message "
                 "position of a reference run (connect request exempt) x 16 broker behaviours {answer, delay, drop, sever before/after, inject a "
                 "response with an unknown request id / chunk ack for an unknown upstream alias / chunk for an unknown downstream alias / metadata "
                 "for an unsubscribed source node / ack or reply for a foreign call id (with or instead of the proper answer), withhold all chunk "
                 "acks from here on}; plus random (template, position, behaviour, deadlines 50-300 ms, close timeout 50-200 ms, ack timeout 0/50 ms, "
                 "codec) and, in thorough, pairs of faults. Oracle: every call returns within context+close timeout+keepalive+2 s (10 s = hang); "
                 "afterwards a cooperative broker's probe (open/write/flush/close upstream, open/read/close downstream, metadata, call) succeeds; "
                 "every mutex named in the lock-probe hook can be taken at quiescence. Non-trivial = a behaviour other than 'answer' that fired; "
                 "distinct by case. Added after the seeded campaign: templates upstream-long-lived / up+down-long-lived (sleeps and State calls after delayed answers), upstream-close-background and flush-abandoned-then-use (Close with context.Background(); 50 explicit flushes whose contexts end after 0-168 us), conn-close-after-traffic; behaviours sever-outage (link cut and every redial refused until the program ended) and delay-late (answer 10 ms .. one context later than the caller's deadline); the enumeration runs a second configuration with a 30 ms ack timeout; the probe starts after every delayed answer has come in; runs with an unplanned reconnect are judged for blocked calls and leaked locks only. Round 3: behaviour sever-slow-resume (after the cut, resume requests on the next connection are answered 150 ms late while the program goes on)."),
        "assumptions": ["Upstream.Close(context.Background()) is bounded by the close timeout only while it waits for acknowledgements; the wait for the close response is governed by the caller's context alone (library semantics relied on by the repository's own tests), so the background-close templates always answer the close request", "dropping the connect response is exempt (Connect has no bound to appeal to); disconnect during the handshake is covered",
                        "the lock probe sees the mutexes named in the verif hook (connection, wire connection tables, stream state), not every lock of the library",
                        "the path-complete static lock-release lemma of the statement is not claimed (DESIGN.md section 5)"],
    },
    "C09": {
        "level": "exploration",
        "groups": [g("workload", "c09", q=12, t=24, race=True, run="^TestProp$", gomaxprocs=[4, 2, 8, 16]),
                   g("upstream", "c01", q=2, t=8, race=True, race_only=True, run="^TestProp$", env={"VERIF_CHECKS": "60"}),
                   g("reconnect-transport", "c18", q=2, t=8, race=True, race_only=True, run="^TestProp$", env={"VERIF_CHECKS": "120"}),
                   g("multi-transport", "c19", q=2, t=8, race=True, race_only=True, run="^TestProp$", env={"VERIF_CHECKS": "120"}),
                   g("storage", "c07", q=2, t=8, race=True, race_only=True, run="^Test(Storage|Conn)$", env={"VERIF_CHECKS": "150"}),
                   g("resume", "c02", q=2, t=8, race=True, race_only=True, run="^TestProp$", env={"VERIF_CHECKS": "20"}),
                   g("reconnect", "c05", q=2, t=8, race=True, race_only=True, run="^TestProp$", env={"VERIF_CHECKS": "10"}),
                   g("close", "c10", q=2, t=8, race=True, race_only=True, run="^TestProp$", env={"VERIF_CHECKS": "12"}),
                   g("downstream", "c04", q=2, t=8, race=True, race_only=True, run="^TestProp$", env={"VERIF_CHECKS": "40"}),
                   g("calls", "c16", q=1, t=4, race=True, race_only=True, run="^TestProp$", env={"VERIF_CHECKS": "60"})],
        "parallel": 16,
        "race_count": True,
        "timeout": {"quick": 900, "thorough": 3600},
        "rule": ("generated workloads compiled with -race: (workload) 2-8 goroutines running generated programs over ONE connection - open/close "
                 "upstreams and downstreams (private and shared names) while others write, flush, read, take State() snapshots, send metadata and "
                 "calls - with a concurrently acting broker (acks, chunks and metadata to every live downstream every 300 us) and 0-2 link cuts "
                 "(instant or paced redial) overlapping the API calls; plus the generated workloads of C01 (concurrent writers), C02/C05 (resume "
                 "and reconnect), C04 (downstream acks), C07 (storage goroutines, multi-stream connections), C10 (close races), C16 (concurrent "
                 "callers), C18 (reconnect transport: concurrent writers + underlying failures) and C19 (multi transport + schedulers) re-run under "
                 "the race detector. Oracle: every 'WARNING: DATA RACE' block is parsed, normalised to a signature (for both accesses the innermost "
                 "library frame as function + source text) and reported unless listed in known_findings.json; a 'fatal error: concurrent map' crash "
                 "is a process-crash violation. Non-trivial = a workload in which >= 2 goroutines used the same connection concurrently; distinct "
                 "by case hash."),
        "assumptions": ["the race detector is precise but only for executed schedules: a green run is evidence, not proof; the static guarded-by report named in the property is another technique and not claimed",
                        "race reports whose both stacks lie entirely in the harness are ignored for the borrowed workloads (and are an infrastructure error for the dedicated workload)"],
    },
    "C10": {
        "level": "exploration",
        "groups": [g("main", "c10", q=16, t=32, run="^Test(Regress|Prop)$", gomaxprocs=[4, 2, 4, 16])],
        "parallel": 16,
        "timeout": {"quick": 600, "thorough": 3000},
        "rule": ("generated: a prefix history over 0-2 upstreams and 0-2 downstreams (open, write, flush, read, metadata), 0-3 calls left pending in other "
                 "goroutines (reads, flush, metadata, call, receive), optionally a link cut 0-3 half-keepalive-intervals before the close plan (reconnect "
                 "/ resume in progress; instant or paced redial), then a close plan: stream closes and connection close in a generated order, with "
                 "repeats, from 1-3 goroutines. Oracle: every call issued after the respective Close returned fails within 2 s (background context) with "
                 "the documented sentinel (errors.Is ErrConnectionClosed / ErrStreamClosed, all ErrISCP), never panics, blocks or succeeds; repeated "
                 "Close returns; pending calls end; nothing but pings after the client's Disconnect and no new ConnectRequest for 10 keepalive "
                 "intervals; closed/disconnected notifications at most once per object/outage; goroutine census (runtime.Stack, library frames, "
                 "not present before the case) reaches zero within 3 s after the peer side is closed too. Non-trivial = something pending at close "
                 "time (blocked call, open stream, reconnect in progress) or concurrent/repeated Close; distinct by case hash. Added after the seeded campaign: stalled peer (client writes block for 10/30 ms right before the close plan) with a flood of 0-40 end-to-end calls and stray call acks; clause connection-left-open (every transport the client dialled is closed by the client 10 ping intervals after Close returned). Round 3: with a cut, every redial refused (broker unreachable): no dial attempt in the 450 ms after Close returned; connections that also have a datagram transport (its traffic is logged by the broker: nothing follows the Disconnect there either); back-pressure starts before the pending calls so that their writes are in flight at Close."),
        "assumptions": ["a call on a stream whose CONNECTION (not the stream) was closed may take up to 1 s to start failing (teardown follows asynchronously)",
                        "the return value of a repeated Close is not constrained", "a blocked Close is C08's business: such a case is counted as aborted here"],
    },
    "C11": {
        "level": "exploration",
        "groups": [g("main", "c11", q=4, t=16, run="^Test(SelfRegistry|Grid|EnumTotality|Random|TransportCounters)$")],
        "timeout": {"quick": 300, "thorough": 1800},
        "rule": ("generated by reflection over package message (registry cross-checked against the package source at start): (grid, exhaustive) "
                 "every message type x every oneof-variant assignment x every leaf field path set to each of its distinguished non-zero values "
                 "(every ResultCode and QoS constant at every enum-typed path; durations at/below/above wire resolution and at the 32-bit limit; "
                 "times in non-UTC zones and at the int64-ns limits; extreme integers; non-ASCII strings) with all other fields zero, plus extension "
                 "present/absent and collections nil/empty/2 elements; (random) full random messages; (enum) every library constant and every wire "
                 "enumeration value in both directions; (transport-counters) random message sequences through encoding.Transport. Oracle: "
                 "decode(encode(m)) == canon(m) in both codecs via an independent canonical form, both codecs agree, byte counts == buffer lengths. "
                 "Non-trivial = a grid cell, or a random message with >= 2 non-default leaves; distinct by case hash. Added after the seeded campaign: before every decode of a valid encoding the same codec is offered a cut-off frame, a damaged frame and a garbage frame (history independence)."),
        "assumptions": ["durations are generated inside the range of their unsigned 32-bit wire field with sub-second fractions <= 999 ms (float rounding of Duration.Seconds near 2^32 s is not judged)",
                        "times inside 1678..2262 (int64 ns); the zero time only for ServerTime fields (documented: zero -> Unix epoch)",
                        "strings are valid UTF-8; nil and empty collections / byte strings are the same canonical value; NormalClosure == Succeeded on the wire",
                        "interface-typed and non-extension pointer fields are non-nil (every caller of the library sets them)"],
    },
    "C14": {
        "level": "exploration",
        "groups": [g("main", "c14", q=4, t=16, run="^Test(GarbageLengths|Exhaustive|Delivery|SenderLimit|Garbage|GarbagePublic|Public|DefaultExpiry|ConcurrentWriters)$")],
        "timeout": {"quick": 400, "thorough": 1800},
        "rule": ("generated: (exhaustive) for every length class {0,1,P-1,P,P+1,2P-1,2P,2P+1,kP-1,kP,kP+1 for k<=6} with <= 6 segments, ALL permutations "
                 "x ALL loss subsets, and all 6! orders x 2^6 loss subsets of two interleaved 3-segment messages (P = 1188, the real segment payload); "
                 "(delivery, random) 1-4 messages up to 20P with sequence numbers across the 2^32 wrap, random delivery orders, loss rates 0-30%, "
                 "clock advances and RemoveExpired calls, judged by a model of the reassembly table incl. expiry; (sender) header fields, datagram "
                 "sizes, byte totals, the 65535-segment limit; (garbage) arbitrary datagrams: every length 0..32, random bytes, index beyond the "
                 "announced count, disagreeing counts - directly and through quic.New over an in-memory quic.Connection (process death is caught by "
                 "the driver); (public) permuted/lossy delivery through quic.New with compression on/off. Non-trivial = >=3 segments out of order, "
                 "a loss, or an interleaving; distinct by case hash. Added after the seeded campaign: SendDatagram fails on the k-th datagram of a message (Write must fail, later messages unaffected); one default-configuration case with the last segment 1.3 s late (default expiry 10 s vs 1 s sweep). Round 3: a partial message injected after the first sweep with expiry 10 ms whose last segment arrives 1.3 s later must have been forgotten (marker arrives instead); 2-16 concurrent unreliable writers of 2-5-segment messages over a loss-free in-order link: every message handed up is one that was sent, once, all arrive."),
        "assumptions": ["duplicate delivery of one segment is outside the stated quantifier (permutations and losses) and is not generated",
                        "a hostile datagram may poison its own sequence number; the statement only demands survival, so probe messages use other sequence numbers",
                        "the WebTransport transport shares the segment package and the receive-loop shape of the QUIC transport; the public path is driven through QUIC"],
    },
    "C12": {
        "level": "exploration",
        "groups": [g("main", "c12", q=8, t=16, run="^Test(Regress|Constants|Decode|SizeGate|Frames|FieldSweep)$")],
        "fuzz": [{"pkg": "c12", "target": "FuzzDecodeProtobuf", "seconds": 150}, {"pkg": "c12", "target": "FuzzDecodeJSON", "seconds": 150}],
        "timeout": {"quick": 400, "thorough": 2400},
        "rule": ("generated: (decode) per codec: random bytes, hostile constants (length prefix 0x7fffffff, null inside repeated fields and maps, "
                 "unknown/huge enum numbers, absent oneofs, bad uuids, deep nesting, invalid UTF-8), every prefix of a valid encoding of every message "
                 "type, valid encodings of random messages, the other codec's bytes, and structure-aware mutations of valid encodings (bit flips, "
                 "constant bytes 4/5/63/88/91/127/132, truncation, insertion, deletion, splice, varint blow-up, 15/17-byte uuids, doubling); oracle: "
                 "returns (watchdog), no panic, error xor message, and for every accepted message the encode->decode fixpoint in the same codec and "
                 "(valid UTF-8 only) in the other codec. (size-gate) MaxMessageSize in {0, n-2..n+2, n+-50}. (frames) a live wire.ClientConn with 7 "
                 "concurrent request callers against a scripted peer that answers request ids with other message types, garbage, wrong ids, "
                 "duplicates or silence, plus unsolicited hostile frames; keepalive at 20 ms so pongs are confused too. thorough adds native "
                 "coverage-guided fuzzing of both decoders. Non-trivial = an input that decodes to a message (fixpoint exercised) or reaches the "
                 "converter; distinct by codec+input. Added after the seeded campaign: (field-sweep) every varint/fixed field of a full valid protobuf encoding of every message type, nested ones included, set to each of 17 hostile numbers, every length-delimited field to 6 hostile payloads, re-serialised with correct lengths. Round 3: size gate on padded frames (valid encoding + 1..100000 bytes of spaces/zeros/braces) and undecodable frames."),
        "assumptions": ["cross-codec fixpoint is only demanded when every string of the accepted message is valid UTF-8 (JSON cannot carry anything else)",
                        "a per-input watchdog of 20 s stands for 'hangs'; runtime fatals (stack exhaustion, OOM) kill the shard process and are reported by the driver as process-crash"],
    },
    "C13": {
        "level": "exploration",
        "groups": [g("inmem", "c13", q=8, t=16, run="^Test(Regress.*|Grid|WebSocketInMem|QUICInMem|QUICLoopback|WebTransportLoopback|BigMessages)$"),
                   g("coder", "c13coder", q=4, t=8, run="^Test(Prop|Grid)$"),
                   g("gorilla", "c13gorilla", q=4, t=8, run="^Test(Prop|Grid)$"),
                   g("nhooyr", "c13nhooyr", q=4, t=8, run="^Test(Prop|Grid)$")],
        "fuzz": [{"pkg": "c13", "target": "FuzzWebSocketSeq", "seconds": 150}],
        "timeout": {"quick": 600, "thorough": 3000},
        "rule": ("generated: a compression setting (type in {absent, '', per-message, context-takeover, unknown}; level absent/0-9; window bits absent/0-32) and a "
                 "sequence of 1-40 messages from 1-4 concurrent writers; sizes around 0, 1, the window size (+-1), 32 KiB, 64 KiB (+-1), 1-5 MiB (big-message test); "
                 "content constant / periodic / random / copy of the previous message / prefix of an earlier message / random-then-zero / zero-then-random so "
                 "that dictionaries and stored blocks matter. Carriers: in-memory websocket.Conn pair with a strictly exclusive writer and frame capture; in-memory "
                 "quic.Connection pair with generated short reads; real loop-back QUIC and WebTransport (self-signed); the three real WebSocket backends "
                 "(coder, gorilla, nhooyr) over an httptest loop-back with websocket.New at both ends. The two ends are built from different base "
                 "configurations whenever the parameters name everything. Exhaustive part: every cell of the grid type x level x window bits with two fixed "
                 "dictionary-sensitive sequences. Oracle: same number of Reads, byte equality and order (per writer when concurrent, each message carrying "
                 "writer/index/length/crc), captured frames decoded by an independent decoder written in the harness (raw deflate with preset dictionary = "
                 "the last window bytes of plaintext; 4-byte big-endian length prefix on streams), Tx counter = bytes framed, Rx counter = Tx counter. "
                 "thorough adds a native coverage-guided campaign over message content and cut positions through the in-memory WebSocket pair (any grid cell). Non-trivial = at least three messages under context takeover exceeding the window, or concurrent writers, or a boundary size; distinct by compression key + carrier + size classes."),
        "assumptions": ["window bits above 15 and 0 mean what transport/compress documents (window size clamps); the harness decoder derives the window from the same documented rule",
                        "concurrent writers: only per-writer order is demanded",
                        "loop-back carriers use the real quic-go / webtransport-go / websocket libraries in this process; their own correctness is trusted"],
    },
    "C15": {
        "level": "fault_enumeration",
        "groups": [g("main", "c15", q=16, t=32, run="^Test(Announce|Prop)$", gomaxprocs=[4, 4, 2, 16])],
        "parallel": 32,
        "timeout": {"quick": 400, "thorough": 2400},
        "rule": ("generated: (keepalive) wire.Connect and iscp.Connect level; dead peer: interval x timeout in {20,35,50,100 ms}^2, the peer answers the "
                 "first k in 0..5 pings then falls silent or answers only after 2-3x the timeout; live peer: interval {20,35,50 ms}, timeout {200,400 ms}, "
                 "every pong delayed by 0/25/50 %% of the timeout over 30 intervals, broker-originated pings with distinctive ids at random moments; "
                 "concurrent application traffic in half of the cases. Oracle: detection (Closed / redial + disconnected event) no later than "
                 "interval + timeout + 2 s after the last answered ping (monotonic clock, reported only if it re-occurs in 3 consecutive runs); "
                 "no close / redial with a live peer; one pong per broker ping with the same id. (announce, exhaustive grid) 9x9 configured "
                 "interval/timeout values {0, 999ms, 1s, 1.5s, 2.9s, 10s, 59.999s, 90min, 2^32-1 s} x {wire, iscp}: ConnectRequest carries the "
                 "configured values truncated to whole seconds (defaults when unset). Non-trivial = silence starting after >= 1 answered ping, or "
                 "delayed pongs with traffic, or a grid cell; distinct by case hash. Added after the seeded campaign: live peer that stops reading for 20-100 ms and sends 3-30 pings at once (all answered in order when writes flow again). Round 3: live peer with abandoned application requests (context 1/5/15 ms) answered 10-90 ms late; dead peer behind a transport whose Close takes 3 s (detection is announced when detected)."),
        "assumptions": ["live-peer cases use timeouts >= 200 ms with pong delays <= 50 % so that scheduling hiccups of the harness cannot fake a dead peer",
                        "time bounds use 2 s slack and the 3-run confirmation protocol; a miss that does not re-occur is counted as timing_inconclusive"],
    },
    "C16": {
        "level": "exploration",
        "groups": [g("main", "c16", q=8, t=32, run="^Test(Prop|Volume|CloseMid)$", gomaxprocs=[4, 1, 2, 16])],
        "timeout": {"quick": 300, "thorough": 1800},
        "rule": ("generated: 1-16 concurrent callers (SendCall, SendReplyCall, SendCallAndWaitReplayCall) with unique payload markers over iscp.Connect "
                 "and the in-memory broker (both codecs); the broker collects all calls, then emits acks (positive, or negative for chosen callers) "
                 "and replies in a generated permutation (reply before ack included) with delays, plus acks/replies for unknown call ids, duplicated "
                 "acks and unsolicited incoming calls; two receiver goroutines drain ReceiveCall / ReceiveReplyCall. Oracle: call ids distinct; "
                 "returned id == id the broker saw for that marker; success iff the ack for that id was positive; the awaited reply's RequestCallID "
                 "and payload belong to the caller's own call; inboxes equal the emitted lists in order, once each, field-equal. Non-trivial = >= 3 "
                 "callers outstanding with permuted acks/replies; distinct by case hash. (volume) long sequential histories on one connection: 300-2100 call-and-wait calls with and without consumers draining the ReceiveCall/ReceiveReplyCall inboxes, after floods of 0-2100 incoming calls and stray replies, stray acks/replies every 1/7 calls; every call must get its own reply (bounded tables: 1024). Added after the seeded campaign: (close-mid-call) Conn.Close with 0-3 acknowledged-waiting, 0-3 unacknowledged call-and-wait callers and 0-2 SendCall callers outstanding, with and without deadlines: all return the connection-closed error within 2 s. Round 3: inbox consumers that poll with contexts of 1/40/400 us; 1 or 3 callers that give up after 1 ms, their negative acks arriving while the patient callers wait."),
        "assumptions": ["inbox load stays far below the 1024-item buffers", "the reconnect-between-call-and-ack part of the quantifier is exercised by C05"],
    },
    "C17": {
        "level": "exploration",
        "groups": [g("main", "c17", q=4, t=16, run="^Test(Regress|Grid|RoundTrip|KeyValues|Binary|Derive|DialConfig)$")],
        "fuzz": [{"pkg": "c17", "target": "FuzzBinary", "seconds": 120}],
        "timeout": {"quick": 300, "thorough": 1500},
        "rule": ("generated: (a) the exhaustive grid encoding x compression type x level{nil,0..9} x window{nil,0,1,8,15,32} x reconnect x 16 "
                 "group-field combinations through 4 carriers (key/value map, WebSocket URL query, WebTransport URL query, QUIC binary); "
                 "(b) random valid sets with arbitrary UTF-8 ids; (c) arbitrary key/value lists (known keys with hostile values, unknown, "
                 "case-variant, empty and duplicated keys, invalid UTF-8) per carrier; (d) arbitrary and mutated byte strings for the binary form; "
                 "(e) parameter sets x 2-4 arbitrary base configs. Non-trivial = a round-trip cell, an arbitrary input that is ACCEPTED "
                 "(exercises the faithful-reading oracle), or a derive case naming type+level+window; distinct by carrier+content hash."),
        "assumptions": ["a value 'null' for an integer field is JSON null and counts as the field being absent",
                        "keys that differ from a known key only by letter case are matched by encoding/json; no demand is made on them",
                        "the plain key/value map has no format of its own: structural rejection (empty/duplicate key) is only demanded of the URL and binary carriers"],
    },
}
