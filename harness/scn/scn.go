// Package scn runs API scenarios (small concurrent programs over one iscp connection) against the
// in-memory broker, with a watchdog around every call. It is shared by C05, C08, C09 and C10.
package scn

import (
	"context"
	"errors"
	"fmt"
	ilog "github.com/aptpod/iscp-go/log"
	"os"
	"sync"
	"sync/atomic"
	"time"

	ierrors "github.com/aptpod/iscp-go/errors"
	"github.com/aptpod/iscp-go/iscp"
	"github.com/aptpod/iscp-go/message"

	"verifharness/sim"
)

// Op is one API call of a program.
type Op struct {
	Kind string `json:"op"`
	// open-up | write | flush | close-up | open-down | read-data | read-meta | close-down | meta | call | call-wait |
	// reply-call | recv-call | recv-reply | conn-close | sleep | state
	Obj   string `json:"obj,omitempty"`    // stream name
	QoS   int    `json:"qos,omitempty"`    // open
	N     int    `json:"n,omitempty"`      // write: points; sleep: microseconds
	CtxMs int    `json:"ctx_ms,omitempty"` // deadline of the call's context (0 = the scenario default)
	BG    bool   `json:"bg,omitempty"`     // use context.Background (promptness must not depend on a deadline)
}

// Program is a list of goroutine programs.
type Program [][]Op

// Config of a scenario run.
type Config struct {
	Codec          string `json:"codec,omitempty"`
	PingMs         int    `json:"ping_ms"` // keepalive interval (and timeout unless PingTimeoutMs is set)
	PingTimeoutMs  int    `json:"ping_timeout_ms,omitempty"`
	CtxMs          int    `json:"ctx_ms"`           // default call deadline
	CloseTimeoutMs int    `json:"close_timeout_ms"` // upstream close timeout
	AckTimeoutMs   int    `json:"ack_timeout_ms"`
	Storage        string `json:"storage,omitempty"` // "" default | payload
}

// Rec is the record of one executed call.
type Rec struct {
	G      int           `json:"g"`
	I      int           `json:"i"`
	Op     Op            `json:"op"`
	Start  time.Duration `json:"start_us"`
	Dur    time.Duration `json:"dur_us"`
	Err    string        `json:"err,omitempty"`
	Hung   bool          `json:"hung,omitempty"`
	Panic  string        `json:"panic,omitempty"`
	Skip   string        `json:"skip,omitempty"`
	Bound  time.Duration `json:"bound_us"`
	error  error
	Result any `json:"-"`
}

func (r *Rec) Error() error { return r.error }

// Events counts event-handler invocations.
type Events struct {
	mu           sync.Mutex
	Disconnected int
	Reconnected  int
	UpClosed     map[string][]error
	UpResumed    map[string]int
	DownClosed   map[string][]error
	DownResumed  map[string]int
}

// EventsSnap is a copy of the counters.
type EventsSnap struct {
	Disconnected int
	Reconnected  int
	UpClosed     map[string][]error
	UpResumed    map[string]int
	DownClosed   map[string][]error
	DownResumed  map[string]int
}

func (e *Events) Snapshot() EventsSnap {
	e.mu.Lock()
	defer e.mu.Unlock()
	c := EventsSnap{Disconnected: e.Disconnected, Reconnected: e.Reconnected, UpClosed: map[string][]error{}, UpResumed: map[string]int{}, DownClosed: map[string][]error{}, DownResumed: map[string]int{}}
	for k, v := range e.UpClosed {
		c.UpClosed[k] = append([]error(nil), v...)
	}
	for k, v := range e.DownClosed {
		c.DownClosed[k] = append([]error(nil), v...)
	}
	for k, v := range e.UpResumed {
		c.UpResumed[k] = v
	}
	for k, v := range e.DownResumed {
		c.DownResumed[k] = v
	}
	return c
}

// Env is one running scenario.
type Env struct {
	W      *sim.World
	Conn   *iscp.Conn
	Cfg    Config
	T0     time.Time
	Events *Events

	mu    sync.Mutex
	Ups   map[string]*iscp.Upstream
	Downs map[string]*iscp.Downstream
	Recs  []*Rec
	wctr  int
	// hangLimit (ns): a call that has not returned after this long is abandoned and recorded as hung.
	hangLimit int64
}

func (c Config) pingTimeout() int {
	if c.PingTimeoutMs > 0 {
		return c.PingTimeoutMs
	}
	return c.PingMs
}

func (c Config) withDefaults() Config {
	if c.PingMs == 0 {
		c.PingMs = 30
	}
	if c.CtxMs == 0 {
		c.CtxMs = 300
	}
	if c.CloseTimeoutMs == 0 {
		c.CloseTimeoutMs = 200
	}
	return c
}

// Feed installs the cooperative feeder on the broker: every opened/resumed downstream gets one chunk
// and one metadata item, and calls named "want-reply" get a reply after their ack.
func Feed(b *sim.Broker) {
	prev := b.After
	b.After = func(inc *sim.Inc, e *sim.Entry) {
		if prev != nil {
			prev(inc, e)
		}
		switch m := e.Msg.(type) {
		case *message.DownstreamOpenRequest:
			FeedDownstream(inc, m.DesiredStreamIDAlias, m.DownstreamFilters, 1)
		case *message.UpstreamCall:
			if m.Name == "want-reply" {
				inc.Send(&message.DownstreamCall{CallID: "reply-" + m.CallID, RequestCallID: m.CallID, SourceNodeID: "peer", Name: "r", Type: "r", Payload: m.Payload})
			}
		}
	}
}

// FeedDownstream sends one chunk and one metadata item to a downstream alias.
func FeedDownstream(inc *sim.Inc, alias uint32, filters []*message.DownstreamFilter, seq uint32) {
	inc.Send(&message.DownstreamChunk{StreamIDAlias: alias, UpstreamOrAlias: &message.UpstreamInfo{SessionID: "feed", SourceNodeID: "src-0"},
		StreamChunk: &message.StreamChunk{SequenceNumber: seq, DataPointGroups: []*message.DataPointGroup{{DataIDOrAlias: &message.DataID{Name: "fed", Type: "t"},
			DataPoints: []*message.DataPoint{{ElapsedTime: time.Duration(seq), Payload: []byte("fed")}}}}}})
	src := "src-0"
	if len(filters) > 0 {
		src = filters[0].SourceNodeID
	}
	inc.Send(&message.DownstreamMetadata{RequestID: message.RequestID(700001 + 2*seq), StreamIDAlias: alias, SourceNodeID: src,
		Metadata: &message.BaseTime{Name: "fed", BaseTime: time.Unix(1700000000, 0).UTC()}})
}

// Start connects and returns the environment.
func Start(w *sim.World, cfg Config) (*Env, error) {
	cfg = cfg.withDefaults()
	ev := &Events{UpClosed: map[string][]error{}, UpResumed: map[string]int{}, DownClosed: map[string][]error{}, DownResumed: map[string]int{}}
	enc := iscp.EncodingNameProtobuf
	if cfg.Codec == "json" {
		enc = iscp.EncodingNameJSON
	}
	opts := []iscp.ConnOption{iscp.WithConnEncoding(enc), iscp.WithConnPingInterval(time.Duration(cfg.PingMs) * time.Millisecond),
		iscp.WithConnPingTimeout(time.Duration(cfg.pingTimeout()) * time.Millisecond),
		iscp.WithConnDisconnectedEventHandler(iscp.DisconnectedEventHandlerFunc(func(*iscp.DisconnectedEvent) { ev.mu.Lock(); ev.Disconnected++; ev.mu.Unlock() })),
		iscp.WithConnReconnectedEventHandler(iscp.ReconnectedEventHandlerFunc(func(*iscp.ReconnectedEvent) { ev.mu.Lock(); ev.Reconnected++; ev.mu.Unlock() }))}
	if os.Getenv("VERIF_LIBLOG") != "" {
		opts = append(opts, iscp.WithConnLogger(ilog.NewStd()))
	}
	if cfg.Storage == "payload" {
		opts = append(opts, iscp.VerifWithConnSentStorage(iscp.VerifNewInmemSentStorage()))
	}
	conn, err := w.Connect(opts...)
	if err != nil {
		return nil, err
	}
	return &Env{W: w, Conn: conn, Cfg: cfg, T0: time.Now(), Events: ev, Ups: map[string]*iscp.Upstream{}, Downs: map[string]*iscp.Downstream{}, hangLimit: int64(10 * time.Second)}, nil
}

// SetHangLimit sets the watchdog limit of subsequent calls.
func (e *Env) SetHangLimit(d time.Duration) { atomic.StoreInt64(&e.hangLimit, int64(d)) }

func (e *Env) ctxFor(op Op) (context.Context, context.CancelFunc, time.Duration) {
	if op.BG {
		return context.Background(), func() {}, 0
	}
	ms := op.CtxMs
	if ms == 0 {
		ms = e.Cfg.CtxMs
	}
	d := time.Duration(ms) * time.Millisecond
	ctx, cancel := context.WithTimeout(context.Background(), d)
	return ctx, cancel, d
}

// Do executes one op under the watchdog.
func (e *Env) Do(g, i int, op Op) *Rec {
	r := &Rec{G: g, I: i, Op: op, Start: time.Since(e.T0)}
	if op.Kind == "sleep" {
		time.Sleep(time.Duration(op.N) * time.Microsecond)
		r.Dur = time.Since(e.T0) - r.Start
		e.add(r)
		return r
	}
	ctx, cancel, bound := e.ctxFor(op)
	r.Bound = bound
	done := make(chan struct{})
	go func() {
		defer close(done)
		defer cancel()
		defer func() {
			if p := recover(); p != nil {
				r.Panic = fmt.Sprint(p)
			}
		}()
		r.error = e.call(ctx, op, r)
	}()
	select {
	case <-done:
		if r.error != nil {
			r.Err = r.error.Error()
		}
	case <-time.After(time.Duration(atomic.LoadInt64(&e.hangLimit))):
		r.Hung = true
	}
	r.Dur = time.Since(e.T0) - r.Start
	e.add(r)
	return r
}

func (e *Env) add(r *Rec) {
	e.mu.Lock()
	e.Recs = append(e.Recs, r)
	e.mu.Unlock()
}

func (e *Env) up(name string) *iscp.Upstream {
	e.mu.Lock()
	defer e.mu.Unlock()
	return e.Ups[name]
}

func (e *Env) down(name string) *iscp.Downstream {
	e.mu.Lock()
	defer e.mu.Unlock()
	return e.Downs[name]
}

var ErrSkipped = errors.New("skipped: object not open")

// ackTimeoutOption: an explicit ack timeout, or no option at all (an explicit 0 would mask a changed library default)
func ackTimeoutOption(ms int) iscp.UpstreamOption {
	if ms <= 0 {
		return func(*iscp.UpstreamConfig) {}
	}
	return iscp.WithUpstreamAckTimeout(time.Duration(ms) * time.Millisecond)
}

func (e *Env) call(ctx context.Context, op Op, r *Rec) error {
	switch op.Kind {
	case "open-up":
		name := op.Obj
		u, err := e.Conn.OpenUpstream(ctx, "sess-"+name, iscp.WithUpstreamQoS(message.QoS(op.QoS)), iscp.WithUpstreamFlushPolicyNone(),
			iscp.WithUpstreamCloseTimeout(time.Duration(e.Cfg.CloseTimeoutMs)*time.Millisecond), ackTimeoutOption(e.Cfg.AckTimeoutMs),
			iscp.WithUpstreamClosedEventHandler(iscp.UpstreamClosedEventHandlerFunc(func(ev *iscp.UpstreamClosedEvent) {
				e.Events.mu.Lock()
				e.Events.UpClosed[name] = append(e.Events.UpClosed[name], ev.Err)
				e.Events.mu.Unlock()
			})),
			iscp.WithUpstreamResumedEventHandler(iscp.UpstreamResumedEventHandlerFunc(func(*iscp.UpstreamResumedEvent) {
				e.Events.mu.Lock()
				e.Events.UpResumed[name]++
				e.Events.mu.Unlock()
			})))
		if err == nil {
			e.mu.Lock()
			e.Ups[name] = u
			e.mu.Unlock()
		}
		return err
	case "write":
		u := e.up(op.Obj)
		if u == nil {
			r.Skip = "not open"
			return nil
		}
		n := op.N
		if n == 0 {
			n = 1
		}
		pts := make([]*message.DataPoint, n)
		for i := range pts {
			e.mu.Lock()
			e.wctr++
			c := e.wctr
			e.mu.Unlock()
			pts[i] = &message.DataPoint{ElapsedTime: time.Duration(c) * time.Microsecond, Payload: []byte(fmt.Sprintf("%s-%06d", op.Obj, c))}
		}
		r.Result = pts
		return u.WriteDataPoints(ctx, &message.DataID{Name: "n-" + op.Obj, Type: "t"}, pts...)
	case "flush":
		u := e.up(op.Obj)
		if u == nil {
			r.Skip = "not open"
			return nil
		}
		return u.Flush(ctx)
	case "flush-racing":
		// N explicit flushes whose contexts end after 0, 7, 14, ... microseconds: cancellation lands before, inside and after the
		// hand-over to the flush loop. Their errors do not matter; what the stream does afterwards does.
		u := e.up(op.Obj)
		if u == nil {
			r.Skip = "not open"
			return nil
		}
		n := op.N
		if n == 0 {
			n = 40
		}
		for i := 0; i < n; i++ {
			fctx, fc := context.WithTimeout(context.Background(), time.Duration(i%25)*7*time.Microsecond)
			u.Flush(fctx)
			fc()
		}
		return nil
	case "close-up":
		u := e.up(op.Obj)
		if u == nil {
			r.Skip = "not open"
			return nil
		}
		return u.Close(ctx)
	case "state":
		if u := e.up(op.Obj); u != nil {
			u.State()
		}
		if d := e.down(op.Obj); d != nil {
			d.State()
		}
		return nil
	case "open-down":
		name := op.Obj
		d, err := e.Conn.OpenDownstream(ctx, []*message.DownstreamFilter{message.NewDownstreamFilterAllFor("src-0")}, iscp.WithDownstreamQoS(message.QoS(op.QoS)),
			iscp.WithDownstreamAckFlushInterval(5*time.Millisecond),
			iscp.WithDownstreamClosedEventHandler(iscp.DownstreamClosedEventHandlerFunc(func(ev *iscp.DownstreamClosedEvent) {
				e.Events.mu.Lock()
				e.Events.DownClosed[name] = append(e.Events.DownClosed[name], ev.Err)
				e.Events.mu.Unlock()
			})),
			iscp.WithDownstreamResumedEventHandler(iscp.DownstreamResumedEventHandlerFunc(func(*iscp.DownstreamResumedEvent) {
				e.Events.mu.Lock()
				e.Events.DownResumed[name]++
				e.Events.mu.Unlock()
			})))
		if err == nil {
			e.mu.Lock()
			e.Downs[name] = d
			e.mu.Unlock()
		}
		return err
	case "read-data":
		d := e.down(op.Obj)
		if d == nil {
			r.Skip = "not open"
			return nil
		}
		ch, err := d.ReadDataPoints(ctx)
		r.Result = ch
		return err
	case "read-meta":
		d := e.down(op.Obj)
		if d == nil {
			r.Skip = "not open"
			return nil
		}
		m, err := d.ReadMetadata(ctx)
		r.Result = m
		return err
	case "close-down":
		d := e.down(op.Obj)
		if d == nil {
			r.Skip = "not open"
			return nil
		}
		return d.Close(ctx)
	case "meta":
		return e.Conn.SendMetadata(ctx, &message.BaseTime{SessionID: "s", Name: "scn", BaseTime: time.Unix(1700000000, 0)})
	case "basetime":
		return e.Conn.SendBaseTime(ctx, &message.BaseTime{SessionID: "s", Name: "scn", BaseTime: time.Unix(1700000000, 0)})
	case "call":
		id, err := e.Conn.SendCall(ctx, &iscp.UpstreamCall{DestinationNodeID: "dst", Name: "plain", Type: "t", Payload: []byte("c")})
		r.Result = id
		return err
	case "reply-call":
		id, err := e.Conn.SendReplyCall(ctx, &iscp.UpstreamReplyCall{RequestCallID: "x", DestinationNodeID: "dst", Name: "plain", Type: "t", Payload: []byte("c")})
		r.Result = id
		return err
	case "call-wait":
		rep, err := e.Conn.SendCallAndWaitReplayCall(ctx, &iscp.UpstreamCall{DestinationNodeID: "dst", Name: "want-reply", Type: "t", Payload: []byte("cw")})
		r.Result = rep
		return err
	case "recv-call":
		c, err := e.Conn.ReceiveCall(ctx)
		r.Result = c
		return err
	case "recv-reply":
		c, err := e.Conn.ReceiveReplyCall(ctx)
		r.Result = c
		return err
	case "conn-close":
		return e.Conn.Close(ctx)
	}
	return fmt.Errorf("scn: unknown op %q", op.Kind)
}

// Run executes the program (one goroutine per sub-program) and returns when all have finished.
func (e *Env) Run(p Program) {
	var wg sync.WaitGroup
	for g := range p {
		wg.Add(1)
		go func(g int) {
			defer wg.Done()
			for i, op := range p[g] {
				e.Do(g, i, op)
			}
		}(g)
	}
	wg.Wait()
}

// Records returns a copy of the call records.
func (e *Env) Records() []*Rec {
	e.mu.Lock()
	defer e.mu.Unlock()
	return append([]*Rec(nil), e.Recs...)
}

// IsLibraryErr: the error is one of the documented sentinels.
func IsLibraryErr(err error) bool { return errors.Is(err, ierrors.ErrISCP) }

// LockProbe tries every mutex reachable from the environment; it returns the names still held
// after `attempts` tries spread over `over`.
func (e *Env) LockProbe(attempts int, over time.Duration) []string {
	var held []string
	for a := 0; a < attempts; a++ {
		held = e.Conn.VerifLockProbe()
		e.mu.Lock()
		for n, u := range e.Ups {
			for _, h := range u.VerifLockProbe() {
				held = append(held, n+":"+h)
			}
		}
		for n, d := range e.Downs {
			for _, h := range d.VerifLockProbe() {
				held = append(held, n+":"+h)
			}
		}
		e.mu.Unlock()
		if len(held) == 0 {
			return nil
		}
		time.Sleep(over / time.Duration(attempts))
	}
	return held
}

// Summary renders records for failure histories.
func Summary(recs []*Rec) []string {
	var s []string
	for _, r := range recs {
		x := fmt.Sprintf("g%d.%d %s %s start=%v dur=%v", r.G, r.I, r.Op.Kind, r.Op.Obj, r.Start.Round(time.Microsecond), r.Dur.Round(time.Microsecond))
		if r.Err != "" {
			x += " err=" + r.Err
		}
		if r.Hung {
			x += " HUNG"
		}
		if r.Panic != "" {
			x += " PANIC " + r.Panic
		}
		if r.Skip != "" {
			x += " skipped(" + r.Skip + ")"
		}
		s = append(s, x)
	}
	return s
}

// LedgerSummary renders the broker ledger (pings left out).
func LedgerSummary(l []*sim.Entry, max int) []string {
	var s []string
	for _, e := range l {
		if e.Kind == "Ping" || e.Kind == "Pong" {
			continue
		}
		d := "->"
		if e.In {
			d = "<-"
		}
		x := fmt.Sprintf("%dus inc%d %s %s pos=%d", e.T, e.Inc, d, e.Kind, e.Pos)
		switch m := e.Msg.(type) {
		case *message.UpstreamResumeRequest:
			x += fmt.Sprintf(" stream=%x", m.StreamID[12:])
		case *message.DownstreamResumeRequest:
			x += fmt.Sprintf(" stream=%x alias=%d", m.StreamID[12:], m.DesiredStreamIDAlias)
		case *message.UpstreamOpenResponse:
			x += fmt.Sprintf(" stream=%x alias=%d", m.AssignedStreamID[12:], m.AssignedStreamIDAlias)
		case *message.DownstreamOpenResponse:
			x += fmt.Sprintf(" stream=%x", m.AssignedStreamID[12:])
		case *message.UpstreamResumeResponse:
			x += fmt.Sprintf(" code=%d alias=%d", m.ResultCode, m.AssignedStreamIDAlias)
		case *message.DownstreamResumeResponse:
			x += fmt.Sprintf(" code=%d", m.ResultCode)
		case *message.UpstreamCloseRequest:
			x += fmt.Sprintf(" stream=%x final=%d total=%d", m.StreamID[12:], m.FinalSequenceNumber, m.TotalDataPoints)
		case *message.DownstreamCloseRequest:
			x += fmt.Sprintf(" stream=%x", m.StreamID[12:])
		case *message.UpstreamChunk:
			x += fmt.Sprintf(" alias=%d seq=%d", m.StreamIDAlias, m.StreamChunk.SequenceNumber)
		}
		s = append(s, x)
	}
	if len(s) > max {
		s = append(s[:max/2], s[len(s)-max/2:]...)
	}
	return s
}
