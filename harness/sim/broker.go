package sim

import (
	"bytes"
	"encoding/binary"
	"fmt"
	"sync"
	"time"

	"github.com/aptpod/iscp-go/encoding"
	ejson "github.com/aptpod/iscp-go/encoding/json"
	eproto "github.com/aptpod/iscp-go/encoding/protobuf"
	"github.com/aptpod/iscp-go/message"
	"github.com/aptpod/iscp-go/transport"
	"github.com/google/uuid"
)

// Entry is one line of the broker ledger.
type Entry struct {
	Inc  int             // incarnation (link index)
	Idx  int             // position in the ledger
	Pos  int             // position among the non-ping inbound messages of this incarnation (inbound only)
	In   bool            // true: client -> broker
	WSeq uint64          // inbound: the client's write sequence number (orders writes across the two sides of a connection)
	T    int64           // microseconds since the world started
	Msg  message.Message // decoded message
	Kind string
	// for UpstreamChunk: the points with aliases resolved through the table the broker had published
	// for that stream when the chunk arrived (Err != "" if an alias was used before it was published)
	Up         *UpState
	Points     []Point
	ResolveErr string
}

// Point is one data point as the application wrote it.
type Point struct {
	Name, Type string
	Elapsed    time.Duration
	Payload    []byte
}

// UpState is what the broker knows about an upstream.
type UpState struct {
	ID       uuid.UUID
	Session  string
	QoS      message.QoS
	Alias    uint32 // stream alias on the current incarnation
	Inc      int
	Aliases  map[uint32]message.DataID // data-id aliases published by the broker
	Rev      map[message.DataID]uint32
	Closed   bool
	CloseReq *message.UpstreamCloseRequest
	OpenReq  *message.UpstreamOpenRequest
	Resumes  int
	// chunks received per sequence number (all receptions, all incarnations)
	Chunks   map[uint32][]*Entry
	NextData uint32
}

// DownState is what the broker knows about a downstream.
type DownState struct {
	ID      uuid.UUID
	Alias   uint32 // alias desired by the client
	QoS     message.QoS
	Inc     int
	OpenReq *message.DownstreamOpenRequest
	Closed  bool
	Resumes int
	// aliases announced by the client (pre-registered in the open request or in chunk acks)
	DataIDAliases   map[uint32]message.DataID
	UpstreamAliases map[uint32]message.UpstreamInfo
	Acks            []*Entry
}

// Verdict is what a Hook tells the broker to do with an inbound message.
type Verdict int

const (
	Default     Verdict = iota // protocol-conformant default handling
	Handled                    // the hook did everything itself (or wants the message dropped)
	SeverBefore                // cut the link; the message counts as not received (it is still in the ledger, marked)
	SeverAfter                 // handle by default, then cut the link
)

// Broker is a scriptable in-memory iSCP broker.
type Broker struct {
	T0 time.Time

	mu     sync.Mutex
	ledger []*Entry
	incs   []*Inc
	ups    map[uuid.UUID]*UpState
	downs  map[uuid.UUID]*DownState
	nextID uint32

	// Hook is consulted for every inbound message (after it was logged). nil = Default.
	Hook func(inc *Inc, e *Entry) Verdict
	// After is called after the default handling of an inbound message (feeders: send follow-up traffic).
	After func(inc *Inc, e *Entry)
	// ReuseUpAliases: an upstream opened or resumed gets the lowest stream alias that no open upstream of that connection
	// holds (a closed stream's alias is handed out again), instead of a fresh one every time.
	ReuseUpAliases bool
	// OnChunk replaces the default "ack immediately with success" for upstream chunks.
	OnChunk func(inc *Inc, up *UpState, e *Entry)
	// AnswerPing false: pings are not answered (dead peer).
	NoPong func(inc *Inc, p *message.Ping) bool
	// OpenAliases decides the data-id aliases handed out in an UpstreamOpenResponse.
	OpenAliases func(req *message.UpstreamOpenRequest) map[uint32]*message.DataID
	// ResumeResult decides the result code of an upstream / downstream resume (default succeeded).
	UpResumeResult   func(inc *Inc, up *UpState, attempt int) message.ResultCode
	DownResumeResult func(inc *Inc, d *DownState, attempt int) message.ResultCode
	// ConnectResult decides the connect response (default succeeded).
	ConnectResult func(inc *Inc, req *message.ConnectRequest) message.ResultCode

	wg sync.WaitGroup
}

// Inc is one incarnation (one link) as seen by the broker.
type Inc struct {
	B        *Broker
	Index    int
	Link     *Link
	enc      encoding.Encoding
	nonPing  int
	sendMu   sync.Mutex
	upAlias  uint32
	Connect  *message.ConnectRequest
	Disc     *message.Disconnect
	resumeUp map[uuid.UUID]int
	resumeDn map[uuid.UUID]int
}

func NewBroker() *Broker {
	return &Broker{T0: time.Now(), ups: map[uuid.UUID]*UpState{}, downs: map[uuid.UUID]*DownState{}}
}

func encodingFor(name transport.EncodingName) encoding.Encoding {
	if name == transport.EncodingNameJSON {
		return ejson.NewEncoding()
	}
	return eproto.NewEncoding()
}

// Serve starts the goroutine that serves one link.
func (b *Broker) Serve(l *Link) *Inc {
	inc := &Inc{B: b, Index: l.Index, Link: l, enc: encodingFor(l.Config.EncodingName), resumeUp: map[uuid.UUID]int{}, resumeDn: map[uuid.UUID]int{}}
	b.mu.Lock()
	b.incs = append(b.incs, inc)
	b.mu.Unlock()
	b.wg.Add(1)
	go func() {
		defer b.wg.Done()
		inc.loop()
	}()
	if l.Unrel != nil {
		// the datagram side of the connection: what the client sends there is logged in the same ledger (and handled by
		// default - unreliable-QoS chunks are acknowledged over the reliable side), hooks are not consulted
		b.wg.Add(1)
		go func() {
			defer b.wg.Done()
			for {
				raw, wseq, ok := l.Unrel.RecvSeq()
				if !ok {
					return
				}
				_, m, err := inc.enc.DecodeFrom(bytes.NewReader(raw))
				if err != nil {
					continue
				}
				e := b.log(inc, true, m)
				e.WSeq = wseq
				b.annotate(inc, e)
				b.handle(inc, e)
			}
		}()
	}
	return inc
}

// Wait waits until every incarnation loop has ended.
func (b *Broker) Wait() { b.wg.Wait() }

// Ledger returns a snapshot of the ledger.
func (b *Broker) Ledger() []*Entry {
	b.mu.Lock()
	defer b.mu.Unlock()
	return append([]*Entry(nil), b.ledger...)
}

func (b *Broker) LedgerLen() int {
	b.mu.Lock()
	defer b.mu.Unlock()
	return len(b.ledger)
}

// Incs returns the incarnations so far.
func (b *Broker) Incs() []*Inc {
	b.mu.Lock()
	defer b.mu.Unlock()
	return append([]*Inc(nil), b.incs...)
}

func (b *Broker) Upstreams() []*UpState {
	b.mu.Lock()
	defer b.mu.Unlock()
	res := make([]*UpState, 0, len(b.ups))
	for _, u := range b.ups {
		res = append(res, u)
	}
	return res
}

func (b *Broker) Upstream(id uuid.UUID) *UpState {
	b.mu.Lock()
	defer b.mu.Unlock()
	return b.ups[id]
}

func (b *Broker) Downstream(id uuid.UUID) *DownState {
	b.mu.Lock()
	defer b.mu.Unlock()
	return b.downs[id]
}

func (b *Broker) Downstreams() []*DownState {
	b.mu.Lock()
	defer b.mu.Unlock()
	res := make([]*DownState, 0, len(b.downs))
	for _, u := range b.downs {
		res = append(res, u)
	}
	return res
}

// Lock / Unlock give hooks consistent access to the stream tables.
func (b *Broker) Lock()   { b.mu.Lock() }
func (b *Broker) Unlock() { b.mu.Unlock() }

func kindOf(m message.Message) string {
	s := fmt.Sprintf("%T", m)
	if len(s) > 9 && s[:9] == "*message." {
		return s[9:]
	}
	return s
}

func (b *Broker) log(inc *Inc, in bool, m message.Message) *Entry {
	e := &Entry{Inc: inc.Index, In: in, T: Since(b.T0), Msg: m, Kind: kindOf(m)}
	b.mu.Lock()
	e.Idx = len(b.ledger)
	if in {
		if _, ping := m.(*message.Ping); !ping {
			if _, pong := m.(*message.Pong); !pong {
				inc.nonPing++
				e.Pos = inc.nonPing
			}
		}
	}
	b.ledger = append(b.ledger, e)
	b.mu.Unlock()
	return e
}

// Send encodes and sends a message on this incarnation and logs it.
func (inc *Inc) Send(m message.Message) bool {
	inc.sendMu.Lock()
	defer inc.sendMu.Unlock()
	if inc.Link.Dead() {
		return false
	}
	var buf bytes.Buffer
	if _, err := inc.enc.EncodeTo(&buf, m); err != nil {
		panic(fmt.Sprintf("sim broker: cannot encode %T: %v", m, err))
	}
	inc.B.log(inc, false, m)
	return inc.Link.Send(buf.Bytes())
}

// SendRaw sends raw bytes (hostile frames).
func (inc *Inc) SendRaw(b []byte) bool {
	inc.sendMu.Lock()
	defer inc.sendMu.Unlock()
	return inc.Link.Send(b)
}

func (inc *Inc) loop() {
	for {
		raw, wseq, ok := inc.Link.RecvSeq()
		if !ok {
			return
		}
		_, m, err := inc.enc.DecodeFrom(bytes.NewReader(raw))
		if err != nil {
			// the client sent something the codec cannot read: record and continue
			inc.B.log(inc, true, &message.Disconnect{ResultString: "sim: undecodable client message: " + err.Error()})
			continue
		}
		e := inc.B.log(inc, true, m)
		e.WSeq = wseq
		inc.B.annotate(inc, e)
		v := Default
		if inc.B.Hook != nil {
			v = inc.B.Hook(inc, e)
		}
		switch v {
		case Handled:
			continue
		case SeverBefore:
			inc.Link.DrainThenSever(50 * time.Millisecond)
			return
		}
		inc.B.handle(inc, e)
		if inc.B.After != nil {
			inc.B.After(inc, e)
		}
		if v == SeverAfter {
			inc.Link.DrainThenSever(50 * time.Millisecond)
			return
		}
	}
}

// annotate resolves an upstream chunk against the alias table published so far.
func (b *Broker) annotate(inc *Inc, e *Entry) {
	ch, ok := e.Msg.(*message.UpstreamChunk)
	if !ok {
		return
	}
	b.mu.Lock()
	defer b.mu.Unlock()
	var up *UpState
	for _, u := range b.ups {
		if u.Inc == inc.Index && u.Alias == ch.StreamIDAlias && !u.Closed {
			up = u
		}
	}
	if up == nil {
		e.ResolveErr = fmt.Sprintf("chunk for unknown stream alias %d on incarnation %d", ch.StreamIDAlias, inc.Index)
		return
	}
	e.Up = up
	if ch.StreamChunk == nil {
		e.ResolveErr = "chunk without StreamChunk"
		return
	}
	for _, g := range ch.StreamChunk.DataPointGroups {
		var id message.DataID
		switch t := g.DataIDOrAlias.(type) {
		case *message.DataID:
			id = *t
		case message.DataIDAlias:
			d, ok := up.Aliases[uint32(t)]
			if !ok {
				e.ResolveErr = fmt.Sprintf("data id alias %d used before the broker published it", uint32(t))
				continue
			}
			id = d
		default:
			e.ResolveErr = fmt.Sprintf("group without data id (%T)", g.DataIDOrAlias)
			continue
		}
		for _, p := range g.DataPoints {
			e.Points = append(e.Points, Point{Name: id.Name, Type: id.Type, Elapsed: p.ElapsedTime, Payload: p.Payload})
		}
	}
	up.Chunks[ch.StreamChunk.SequenceNumber] = append(up.Chunks[ch.StreamChunk.SequenceNumber], e)
}

// NewUUID returns a deterministic stream id.
func (b *Broker) newUUID(kind byte) uuid.UUID {
	b.nextID++
	var u uuid.UUID
	u[0] = kind
	binary.BigEndian.PutUint32(u[12:], b.nextID)
	u[6] = 0x40
	u[8] = 0x80
	return u
}

// nextUpAlias picks the stream alias for an upstream opened or resumed on inc (b.mu held).
func (b *Broker) nextUpAlias(inc *Inc) uint32 {
	if !b.ReuseUpAliases {
		inc.upAlias++
		return inc.upAlias
	}
	used := map[uint32]bool{}
	for _, u := range b.ups {
		if !u.Closed && u.Inc == inc.Index {
			used[u.Alias] = true
		}
	}
	a := uint32(1)
	for used[a] {
		a++
	}
	return a
}

func (b *Broker) handle(inc *Inc, e *Entry) {
	switch m := e.Msg.(type) {
	case *message.ConnectRequest:
		inc.Connect = m
		rc := message.ResultCodeSucceeded
		if b.ConnectResult != nil {
			rc = b.ConnectResult(inc, m)
		}
		inc.Send(&message.ConnectResponse{RequestID: m.RequestID, ProtocolVersion: m.ProtocolVersion, ResultCode: rc, ResultString: "connect"})
	case *message.Ping:
		if b.NoPong != nil && b.NoPong(inc, m) {
			return
		}
		inc.Send(&message.Pong{RequestID: m.RequestID})
	case *message.Pong:
	case *message.Disconnect:
		inc.Disc = m
	case *message.UpstreamOpenRequest:
		b.mu.Lock()
		up := &UpState{ID: b.newUUID(0xaa), Session: m.SessionID, QoS: m.QoS, Inc: inc.Index, Aliases: map[uint32]message.DataID{},
			Rev: map[message.DataID]uint32{}, Chunks: map[uint32][]*Entry{}, OpenReq: m}
		up.Alias = b.nextUpAlias(inc)
		var al map[uint32]*message.DataID
		if b.OpenAliases != nil {
			al = b.OpenAliases(m)
		}
		for a, id := range al {
			up.Aliases[a] = *id
			up.Rev[*id] = a
			if a > up.NextData {
				up.NextData = a
			}
		}
		b.ups[up.ID] = up
		b.mu.Unlock()
		if al == nil {
			al = map[uint32]*message.DataID{}
		}
		inc.Send(&message.UpstreamOpenResponse{RequestID: m.RequestID, AssignedStreamID: up.ID, AssignedStreamIDAlias: up.Alias,
			ResultCode: message.ResultCodeSucceeded, ResultString: "open", ServerTime: time.Unix(1700000000, 0).UTC(), DataIDAliases: al})
	case *message.UpstreamResumeRequest:
		b.mu.Lock()
		up := b.ups[m.StreamID]
		b.mu.Unlock()
		if up == nil {
			inc.Send(&message.UpstreamResumeResponse{RequestID: m.RequestID, ResultCode: message.ResultCodeStreamNotFound, ResultString: "no such stream"})
			return
		}
		b.mu.Lock() // HandleDefault may run on several goroutines (delayed answers)
		inc.resumeUp[m.StreamID]++
		attempt := inc.resumeUp[m.StreamID]
		b.mu.Unlock()
		rc := message.ResultCodeSucceeded
		if b.UpResumeResult != nil {
			rc = b.UpResumeResult(inc, up, attempt)
		}
		var alias uint32
		if rc == message.ResultCodeSucceeded {
			b.mu.Lock()
			alias = b.nextUpAlias(inc)
			up.Alias = alias
			up.Inc = inc.Index
			up.Resumes++
			b.mu.Unlock()
		}
		inc.Send(&message.UpstreamResumeResponse{RequestID: m.RequestID, AssignedStreamIDAlias: alias, ResultCode: rc, ResultString: "resume"})
	case *message.UpstreamChunk:
		if e.Up == nil {
			return
		}
		if b.OnChunk != nil {
			b.OnChunk(inc, e.Up, e)
			return
		}
		inc.Send(&message.UpstreamChunkAck{StreamIDAlias: m.StreamIDAlias, Results: []*message.UpstreamChunkResult{{
			SequenceNumber: m.StreamChunk.SequenceNumber, ResultCode: message.ResultCodeSucceeded, ResultString: "OK"}},
			DataIDAliases: map[uint32]*message.DataID{}})
	case *message.UpstreamCloseRequest:
		b.mu.Lock()
		if up := b.ups[m.StreamID]; up != nil {
			up.Closed = true
			up.CloseReq = m
		}
		b.mu.Unlock()
		inc.Send(&message.UpstreamCloseResponse{RequestID: m.RequestID, ResultCode: message.ResultCodeSucceeded, ResultString: "closed"})
	case *message.DownstreamOpenRequest:
		b.mu.Lock()
		d := &DownState{ID: b.newUUID(0xdd), Alias: m.DesiredStreamIDAlias, QoS: m.QoS, Inc: inc.Index, OpenReq: m,
			DataIDAliases: map[uint32]message.DataID{}, UpstreamAliases: map[uint32]message.UpstreamInfo{}}
		for a, id := range m.DataIDAliases {
			d.DataIDAliases[a] = *id
		}
		b.downs[d.ID] = d
		b.mu.Unlock()
		inc.Send(&message.DownstreamOpenResponse{RequestID: m.RequestID, AssignedStreamID: d.ID, ResultCode: message.ResultCodeSucceeded,
			ResultString: "open", ServerTime: time.Unix(1700000000, 0).UTC()})
	case *message.DownstreamResumeRequest:
		b.mu.Lock()
		d := b.downs[m.StreamID]
		b.mu.Unlock()
		if d == nil {
			inc.Send(&message.DownstreamResumeResponse{RequestID: m.RequestID, ResultCode: message.ResultCodeStreamNotFound, ResultString: "no such stream"})
			return
		}
		b.mu.Lock()
		inc.resumeDn[m.StreamID]++
		attemptDn := inc.resumeDn[m.StreamID]
		b.mu.Unlock()
		rc := message.ResultCodeSucceeded
		if b.DownResumeResult != nil {
			rc = b.DownResumeResult(inc, d, attemptDn)
		}
		if rc == message.ResultCodeSucceeded {
			b.mu.Lock()
			d.Inc = inc.Index
			d.Resumes++
			b.mu.Unlock()
		}
		inc.Send(&message.DownstreamResumeResponse{RequestID: m.RequestID, ResultCode: rc, ResultString: "resume"})
	case *message.DownstreamChunkAck:
		b.mu.Lock()
		var d *DownState
		for _, x := range b.downs {
			if x.Alias == m.StreamIDAlias && x.Inc == inc.Index && !x.Closed {
				d = x
			}
		}
		if d != nil {
			d.Acks = append(d.Acks, e)
			for a, id := range m.DataIDAliases {
				if _, dup := d.DataIDAliases[a]; !dup {
					d.DataIDAliases[a] = *id
				}
			}
			for a, info := range m.UpstreamAliases {
				if _, dup := d.UpstreamAliases[a]; !dup {
					d.UpstreamAliases[a] = *info
				}
			}
		}
		b.mu.Unlock()
		inc.Send(&message.DownstreamChunkAckComplete{StreamIDAlias: m.StreamIDAlias, AckID: m.AckID, ResultCode: message.ResultCodeSucceeded, ResultString: "OK"})
	case *message.DownstreamCloseRequest:
		b.mu.Lock()
		if d := b.downs[m.StreamID]; d != nil {
			d.Closed = true
		}
		b.mu.Unlock()
		inc.Send(&message.DownstreamCloseResponse{RequestID: m.RequestID, ResultCode: message.ResultCodeSucceeded, ResultString: "closed"})
	case *message.DownstreamMetadataAck:
	case *message.UpstreamMetadata:
		inc.Send(&message.UpstreamMetadataAck{RequestID: m.RequestID, ResultCode: message.ResultCodeSucceeded, ResultString: "OK"})
	case *message.UpstreamCall:
		inc.Send(&message.UpstreamCallAck{CallID: m.CallID, ResultCode: message.ResultCodeSucceeded, ResultString: "OK"})
	}
}

// HandleDefault lets a hook run the default handling itself (e.g. after a delay).
func (b *Broker) HandleDefault(inc *Inc, e *Entry) { b.handle(inc, e) }

// PublishAliases records data-id aliases the broker is about to send in an ack for stream up.
func (b *Broker) PublishAliases(up *UpState, al map[uint32]*message.DataID) {
	b.mu.Lock()
	for a, id := range al {
		up.Aliases[a] = *id
		up.Rev[*id] = a
		if a > up.NextData {
			up.NextData = a
		}
	}
	b.mu.Unlock()
}

// CurrentInc returns the newest incarnation or nil.
func (b *Broker) CurrentInc() *Inc {
	b.mu.Lock()
	defer b.mu.Unlock()
	if len(b.incs) == 0 {
		return nil
	}
	return b.incs[len(b.incs)-1]
}

// Quiesce waits until the ledger has not grown for d (pings excluded) or max elapsed.
func (b *Broker) Quiesce(d, max time.Duration) bool {
	deadline := time.Now().Add(max)
	count := func() int {
		b.mu.Lock()
		defer b.mu.Unlock()
		n := 0
		for _, e := range b.ledger {
			if e.Kind != "Ping" && e.Kind != "Pong" {
				n++
			}
		}
		return n
	}
	last := count()
	lastChange := time.Now()
	for time.Now().Before(deadline) {
		time.Sleep(d / 4)
		if n := count(); n != last {
			last = n
			lastChange = time.Now()
		} else if time.Since(lastChange) >= d {
			return true
		}
	}
	return false
}
