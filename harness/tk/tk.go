// Package tk is the transport kit of C13: message-sequence cases, concurrent writers against a reading
// peer, the boundary/bytes/order oracle, and independent decoders for the documented framings.
package tk

import (
	"bytes"
	"compress/flate"
	"encoding/binary"
	"fmt"
	"hash/crc32"
	"io"
	"sync"
	"time"

	"github.com/aptpod/iscp-go/transport"
	"github.com/aptpod/iscp-go/transport/compress"
	"pgregory.net/rapid"

	"verifharness/ev"
)

// Comp is a negotiated compression setting.
type Comp struct {
	Type  string `json:"type"` // "" | per-message | context-takeover
	Level *int   `json:"level"`
	Win   *int   `json:"win"`
}

func (c Comp) Params() transport.NegotiationParams {
	return transport.NegotiationParams{Encoding: transport.EncodingNameProtobuf, Compress: compress.Type(c.Type), CompressLevel: c.Level, CompressWindowBits: c.Win}
}

// Enabled mirrors the documented derivation: compression is on iff a level other than 0 is named.
func (c Comp) Enabled() bool { return c.Level != nil && *c.Level != 0 }

// BaseA is the base compress.Config of the writing peer; a reading peer may use any other base as long as the
// parameters name type, level and window (otherwise both peers must share the base: nothing was negotiated).
var BaseA = compress.Config{Enable: false, Level: 3, WindowBits: 4, DisableContextTakeover: true}

// FullyNamed: the parameter set names compression type, level and window, as every dialer of the library produces.
func (c Comp) FullyNamed() bool { return c.Type != "" && c.Level != nil && c.Win != nil }

func (c Comp) Takeover() bool {
	if !c.Enabled() {
		return false
	}
	switch c.Type {
	case "per-message":
		return false
	case "context-takeover":
		return true
	}
	return !BaseA.DisableContextTakeover
}

func (c Comp) WindowSize() int {
	if c.Win == nil {
		return 1 << uint(BaseA.WindowBits)
	}
	return 1 << uint(*c.Win)
}

func (c Comp) Key() string {
	f := func(p *int) string {
		if p == nil {
			return "nil"
		}
		return fmt.Sprint(*p)
	}
	return fmt.Sprintf("%s/l%s/w%s", c.Type, f(c.Level), f(c.Win))
}

// Msg describes one message of a sequence.
type Msg struct {
	Writer int    `json:"w"`
	Size   int    `json:"size"`
	Kind   string `json:"kind"` // const | periodic | random | prev | prefix
	Seed   int    `json:"seed"`
}

type Case struct {
	Comp    Comp  `json:"comp"`
	Writers int   `json:"writers"`
	Msgs    []Msg `json:"msgs"`
}

const hdr = 20 // writer(4) index(4) length(4) crc(4) magic(4)

// Build renders the message bodies; messages of at least hdr bytes carry (writer, index, length, checksum).
func Build(c Case) [][]byte {
	res := make([][]byte, len(c.Msgs))
	idx := map[int]int{}
	for i, m := range c.Msgs {
		b := make([]byte, m.Size)
		switch m.Kind {
		case "const":
			for j := range b {
				b[j] = byte(m.Seed)
			}
		case "periodic":
			p := m.Seed%13 + 2
			for j := range b {
				b[j] = byte((j % p) * 17)
			}
		case "prev":
			if i > 0 {
				copy(b, res[i-1])
			}
		case "prev-compressible":
			p := m.Seed%5 + 2
			for j := range b {
				b[j] = byte((j % p) * 29)
			}
			if i > 0 && c.Msgs[i-1].Kind != "random" {
				copy(b, res[i-1])
			}
		case "prefix":
			if i > 0 {
				src := res[m.Seed%i]
				copy(b, src)
			}
		default: // random, random-then-zero (stored block first, matches later), zero-then-random (stored blocks later)
			x := uint32(m.Seed)*2654435761 + 12345
			lo, hi := 0, len(b)
			switch m.Kind {
			case "random-then-zero":
				hi = len(b) / 2
			case "zero-then-random":
				lo = len(b) / 2
			}
			for j := lo; j < hi; j++ {
				x ^= x << 13
				x ^= x >> 17
				x ^= x << 5
				b[j] = byte(x)
			}
		}
		if m.Size >= hdr {
			binary.BigEndian.PutUint32(b[0:], uint32(m.Writer))
			binary.BigEndian.PutUint32(b[4:], uint32(idx[m.Writer]))
			binary.BigEndian.PutUint32(b[8:], uint32(m.Size))
			binary.BigEndian.PutUint32(b[16:], 0x13c13c13)
			binary.BigEndian.PutUint32(b[12:], crc32.ChecksumIEEE(b[16:]))
		}
		idx[m.Writer]++
		res[i] = b
	}
	return res
}

var sizeClasses = []int{0, 1, 2, 19, 20, 21, 255, 256, 257, 1023, 1024, 1025, 32767, 32768, 32769, 65535, 65536, 65537}

// Gen draws a case. comp == nil: draw the compression setting too.
func Gen(t *rapid.T, comp *Comp, maxMsgs int, allowBig bool) Case {
	var c Case
	if comp != nil {
		c.Comp = *comp
	} else {
		c.Comp = GenComp(t)
	}
	c.Writers = rapid.SampledFrom([]int{1, 1, 2, 3, 4}).Draw(t, "writers")
	n := rapid.IntRange(1, maxMsgs).Draw(t, "nmsgs")
	win := c.Comp.WindowSize()
	for i := 0; i < n; i++ {
		kinds := []string{"const", "periodic", "random", "random", "prev", "prefix", "random-then-zero", "zero-then-random"}
		if KnownTakeoverStoredBlock && c.Comp.Takeover() && *c.Comp.Level >= 2 && rapid.IntRange(0, 9).Draw(t, "incompressible-anyway") > 0 {
			// known finding C13-takeover-stored-block: steer away from incompressible content by construction (counted when it
			// happens anyway), so that the dictionary logic keeps being explored behind it
			kinds = []string{"const", "periodic", "periodic", "prev-compressible"}
		}
		m := Msg{Writer: rapid.IntRange(0, c.Writers-1).Draw(t, "w"), Kind: rapid.SampledFrom(kinds).Draw(t, "kind"), Seed: rapid.IntRange(0, 1<<20).Draw(t, "seed")}
		switch rapid.IntRange(0, 9).Draw(t, "sizekind") {
		case 0, 1:
			m.Size = rapid.SampledFrom(sizeClasses).Draw(t, "class")
		case 2:
			if win > 2 && win < 1<<22 {
				m.Size = win + rapid.IntRange(-1, 1).Draw(t, "around-window")
			} else {
				m.Size = rapid.IntRange(0, 64).Draw(t, "tiny")
			}
		case 3:
			if allowBig && rapid.IntRange(0, 20).Draw(t, "big") == 0 {
				m.Size = 1 << 20
			} else {
				m.Size = rapid.IntRange(1000, 70000).Draw(t, "large")
			}
		default:
			m.Size = rapid.IntRange(0, 3000).Draw(t, "size")
		}
		if c.Writers > 1 && m.Size < hdr {
			m.Size += hdr // concurrent writers need self-identifying messages
		}
		c.Msgs = append(c.Msgs, m)
	}
	return c
}

func ip(v int) *int { return &v }

func GenComp(t *rapid.T) Comp {
	c := Comp{Type: rapid.SampledFrom([]string{"", "per-message", "context-takeover", "context-takeover"}).Draw(t, "comptype")}
	if rapid.IntRange(0, 9).Draw(t, "levelnil") > 0 {
		c.Level = ip(rapid.IntRange(0, 9).Draw(t, "level"))
	}
	if rapid.IntRange(0, 9).Draw(t, "winnil") > 0 {
		c.Win = ip(rapid.SampledFrom([]int{0, 1, 2, 8, 9, 10, 15, 16, 32}).Draw(t, "win"))
	}
	return c
}

// Grid returns the exhaustive compression grid of the property.
func Grid() []Comp {
	var res []Comp
	levels := []*int{nil}
	for l := 0; l <= 9; l++ {
		levels = append(levels, ip(l))
	}
	wins := []*int{nil, ip(0), ip(1), ip(2), ip(8), ip(9), ip(10), ip(15), ip(16), ip(32)}
	for _, ty := range []string{"", "per-message", "context-takeover"} {
		for _, l := range levels {
			for _, w := range wins {
				res = append(res, Comp{Type: ty, Level: l, Win: w})
			}
		}
	}
	return res
}

// KnownTakeoverStoredBlock: former finding C13-takeover-stored-block (fixed, see known_findings.json); kept switchable so that
// the exclusion machinery can be re-armed, off on the repaired tree: nothing is excluded or steered.
var KnownTakeoverStoredBlock = false

// takeoverStoredBlockShape: got == (a suffix of at most window bytes of some earlier plaintext) + want.
func takeoverStoredBlockShape(c Case, got, want []byte) bool {
	if !c.Comp.Takeover() || *c.Comp.Level < 2 {
		return false
	}
	extra := len(got) - len(want)
	return extra > 0 && extra <= c.Comp.WindowSize() && extra <= 1<<15 && bytes.Equal(got[extra:], want)
}

// Pair is two connected transports plus optional access to the raw frames a -> b.
type Pair struct {
	A, B transport.ReadWriter
	// Frames returns the raw frames (or stream bytes) written by A so far, and whether capture is available.
	Frames func() ([][]byte, []byte, bool)
	Close  func()
}

// Run writes the case's messages from A (one goroutine per writer, each in its own order) and reads them at B.
func Run(c Case, p *Pair, k *ev.Case, framing string) *ev.Failure {
	bodies := Build(c)
	perWriter := make([][]int, c.Writers)
	for i, m := range c.Msgs {
		perWriter[m.Writer] = append(perWriter[m.Writer], i)
	}
	var wg sync.WaitGroup
	werr := make([]error, c.Writers)
	for w := 0; w < c.Writers; w++ {
		wg.Add(1)
		go func(w int) {
			defer wg.Done()
			defer func() {
				if r := recover(); r != nil {
					werr[w] = fmt.Errorf("panic in Write: %v", r)
				}
			}()
			for _, i := range perWriter[w] {
				if err := p.A.Write(bodies[i]); err != nil {
					werr[w] = fmt.Errorf("message %d (%d bytes): %w", i, len(bodies[i]), err)
					return
				}
			}
		}(w)
	}
	got := make([][]byte, 0, len(bodies))
	rerrCh := make(chan error, 1)
	go func() {
		for len(got) < len(bodies) {
			m, err := p.B.Read()
			if err != nil {
				rerrCh <- err
				return
			}
			got = append(got, m)
		}
		rerrCh <- nil
	}()
	wdone := make(chan struct{})
	go func() { wg.Wait(); close(wdone) }()
	select {
	case <-wdone:
	case <-time.After(60 * time.Second):
		return ev.Failf("C13.1 write-blocked", "writers did not finish within 60 s")
	}
	for w, e := range werr {
		if e != nil {
			return ev.Failf("C13.1 write-error", "writer %d: %v (compression %s)", w, e, c.Comp.Key())
		}
	}
	select {
	case err := <-rerrCh:
		if err != nil {
			return ev.Failf("C13.1 read-error", "after %d of %d messages the peer's Read fails: %v (compression %s)", len(got), len(bodies), err, c.Comp.Key())
		}
	case <-time.After(30 * time.Second):
		return ev.Failf("C13.1 message-missing", "the peer read %d of %d messages and then nothing for 30 s (compression %s)", len(got), len(bodies), c.Comp.Key())
	}
	// boundaries, bytes, order
	if c.Writers == 1 {
		for i := range bodies {
			if !bytes.Equal(got[i], bodies[i]) && KnownTakeoverStoredBlock && takeoverStoredBlockShape(c, got[i], bodies[i]) {
				ev.Excluded(1)
				k.Label("known-takeover-stored-block")
				return nil // from here on the two windows may differ: nothing more to judge in this case
			}
			if !bytes.Equal(got[i], bodies[i]) {
				return ev.Failf("C13.1 bytes", "message %d: wrote %d bytes, peer read %d bytes (first difference at %d; compression %s)", i, len(bodies[i]), len(got[i]), firstDiff(got[i], bodies[i]), c.Comp.Key())
			}
		}
	} else {
		next := make([]int, c.Writers)
		for gi, g := range got {
			if KnownTakeoverStoredBlock && c.Comp.Takeover() && *c.Comp.Level >= 2 {
				known := false
				for _, body := range bodies {
					if takeoverStoredBlockShape(c, g, body) {
						known = true
					}
				}
				if known {
					ev.Excluded(1)
					k.Label("known-takeover-stored-block")
					return nil
				}
			}
			if len(g) < hdr || binary.BigEndian.Uint32(g[16:]) != 0x13c13c13 {
				return ev.Failf("C13.1 bytes", "read %d: %d bytes that are no message any writer wrote (compression %s)", gi, len(g), c.Comp.Key())
			}
			w := int(binary.BigEndian.Uint32(g[0:]))
			ix := int(binary.BigEndian.Uint32(g[4:]))
			if w >= c.Writers || ix != next[w] {
				return ev.Failf("C13.2 per-writer-order", "read %d: message %d of writer %d, expected its message %d (compression %s)", gi, ix, w, next[w], c.Comp.Key())
			}
			want := bodies[perWriter[w][ix]]
			if !bytes.Equal(g, want) {
				return ev.Failf("C13.1 bytes", "message %d of writer %d: wrote %d bytes, peer read %d bytes, first difference at %d (interleaved or corrupted; compression %s)", ix, w, len(want), len(g), firstDiff(g, want), c.Comp.Key())
			}
			next[w]++
		}
	}
	// independent decoding of the raw frames + counters
	if p.Frames != nil {
		frames, stream, ok := p.Frames()
		if ok {
			var dec [][]byte
			var framed int
			var err error
			switch framing {
			case "websocket":
				dec, err = DecodeWebSocket(frames, c.Comp)
				for _, f := range frames {
					framed += len(f)
				}
			case "quic":
				dec, err = DecodeQUICStream(stream, c.Comp)
				framed = len(stream)
			}
			if err != nil {
				return ev.Failf("C13.3 independent-decoder", "the frames on the wire cannot be decoded from the documented framing: %v (compression %s)", err, c.Comp.Key())
			}
			if len(dec) != len(got) {
				return ev.Failf("C13.3 independent-decoder", "the wire carries %d frames, the peer read %d messages", len(dec), len(got))
			}
			for i := range dec {
				if !bytes.Equal(dec[i], got[i]) {
					return ev.Failf("C13.3 independent-decoder", "frame %d decodes to %d bytes with an independent decoder, the peer's Read returned %d bytes (compression %s)", i, len(dec[i]), len(got[i]), c.Comp.Key())
				}
			}
			if tx := p.A.TxBytesCounterValue(); tx != uint64(framed) {
				return ev.Failf("C13.4 counters", "TxBytesCounterValue %d, bytes framed on the wire %d (compression %s)", tx, framed, c.Comp.Key())
			}
			if rx := p.B.RxBytesCounterValue(); rx != uint64(framed) {
				return ev.Failf("C13.4 counters", "peer RxBytesCounterValue %d, bytes framed on the wire %d (compression %s)", rx, framed, c.Comp.Key())
			}
		}
	}
	total := 0
	boundary := false
	for _, m := range c.Msgs {
		total += m.Size
		for _, s := range sizeClasses {
			if m.Size == s {
				boundary = true
			}
		}
	}
	k.Label("comp=" + map[bool]string{true: "on", false: "off"}[c.Comp.Enabled()])
	if c.Comp.Takeover() {
		k.Label("context-takeover")
	}
	if c.Writers > 1 {
		k.Label("concurrent-writers")
	}
	if (len(c.Msgs) >= 3 && c.Comp.Takeover() && total > c.Comp.WindowSize()) || c.Writers > 1 || boundary {
		k.NonTrivial(framing + ev.JSON(c))
	}
	k.Sample(func() any {
		return map[string]any{"framing": framing, "comp": c.Comp.Key(), "writers": c.Writers, "sizes": sizesOf(c)}
	})
	return nil
}

func sizesOf(c Case) []int {
	var s []int
	for _, m := range c.Msgs {
		s = append(s, m.Size)
	}
	if len(s) > 30 {
		s = s[:30]
	}
	return s
}

func firstDiff(a, b []byte) int {
	for i := 0; i < len(a) && i < len(b); i++ {
		if a[i] != b[i] {
			return i
		}
	}
	if len(a) < len(b) {
		return len(a)
	}
	return len(b)
}

// DecodeWebSocket decodes captured WebSocket message bodies from the documented framing:
// raw bytes | raw-deflate per message | deflate with the preset dictionary = last 2^bits bytes of all previous plaintext.
func DecodeWebSocket(frames [][]byte, c Comp) ([][]byte, error) {
	var res [][]byte
	var history []byte
	for i, f := range frames {
		var plain []byte
		switch {
		case !c.Enabled():
			plain = append([]byte(nil), f...)
		case !c.Takeover():
			r := flate.NewReader(bytes.NewReader(f))
			b, err := io.ReadAll(r)
			if err != nil {
				return nil, fmt.Errorf("frame %d: %w", i, err)
			}
			plain = b
		default:
			r := flate.NewReaderDict(bytes.NewReader(f), history)
			b, err := io.ReadAll(r)
			if err != nil {
				return nil, fmt.Errorf("frame %d (dictionary %d bytes): %w", i, len(history), err)
			}
			plain = b
			history = append(history, plain...)
			if ws := c.WindowSize(); len(history) > ws {
				history = append([]byte(nil), history[len(history)-ws:]...)
			}
		}
		res = append(res, plain)
	}
	return res, nil
}

// DecodeQUICStream decodes a captured QUIC/WebTransport stream: 4-byte big-endian length + body, body raw-deflate when enabled.
func DecodeQUICStream(s []byte, c Comp) ([][]byte, error) {
	var res [][]byte
	for len(s) > 0 {
		if len(s) < 4 {
			return nil, fmt.Errorf("truncated length prefix")
		}
		n := int(binary.BigEndian.Uint32(s))
		s = s[4:]
		if len(s) < n {
			return nil, fmt.Errorf("body shorter than its length prefix (%d < %d)", len(s), n)
		}
		body := s[:n]
		s = s[n:]
		if c.Enabled() {
			b, err := io.ReadAll(flate.NewReader(bytes.NewReader(body)))
			if err != nil {
				return nil, fmt.Errorf("message %d: %w", len(res), err)
			}
			body = b
		} else {
			body = append([]byte(nil), body...)
		}
		res = append(res, body)
	}
	return res, nil
}

// RunBodies: the single-writer oracle over explicit message bodies (native fuzz target): write, read, compare, decode the captured
// frames independently, compare the counters.
func RunBodies(comp Comp, bodies [][]byte, p *Pair, k *ev.Case, framing string) *ev.Failure {
	var got [][]byte
	for i, b := range bodies {
		var werr error
		func() {
			defer func() {
				if r := recover(); r != nil {
					werr = fmt.Errorf("panic in Write: %v", r)
				}
			}()
			werr = p.A.Write(b)
		}()
		if werr != nil {
			return ev.Failf("C13.1 write-error", "message %d (%d bytes): %v (compression %s)", i, len(b), werr, comp.Key())
		}
		g, err := p.B.Read()
		if err != nil {
			return ev.Failf("C13.1 read-error", "message %d of %d: the peer's Read fails: %v (compression %s)", i, len(bodies), err, comp.Key())
		}
		if !bytes.Equal(g, b) {
			return ev.Failf("C13.1 bytes", "message %d: wrote %d bytes, peer read %d bytes (first difference at %d; compression %s)", i, len(b), len(g), firstDiff(g, b), comp.Key())
		}
		got = append(got, g)
	}
	if p.Frames != nil {
		if frames, _, ok := p.Frames(); ok && framing == "websocket" {
			dec, err := DecodeWebSocket(frames, comp)
			if err != nil {
				return ev.Failf("C13.3 independent-decoder", "the frames on the wire cannot be decoded from the documented framing: %v (compression %s)", err, comp.Key())
			}
			framed := 0
			for _, f := range frames {
				framed += len(f)
			}
			if len(dec) != len(got) {
				return ev.Failf("C13.3 independent-decoder", "the wire carries %d frames, the peer read %d messages", len(dec), len(got))
			}
			for i := range dec {
				if !bytes.Equal(dec[i], got[i]) {
					return ev.Failf("C13.3 independent-decoder", "frame %d decodes to %d bytes with an independent decoder, the peer's Read returned %d bytes (compression %s)", i, len(dec[i]), len(got[i]), comp.Key())
				}
			}
			if tx := p.A.TxBytesCounterValue(); tx != uint64(framed) {
				return ev.Failf("C13.4 counters", "TxBytesCounterValue %d, bytes framed on the wire %d (compression %s)", tx, framed, comp.Key())
			}
			if rx := p.B.RxBytesCounterValue(); rx != uint64(framed) {
				return ev.Failf("C13.4 counters", "peer RxBytesCounterValue %d, bytes framed on the wire %d (compression %s)", rx, framed, comp.Key())
			}
		}
	}
	if comp.Enabled() && len(bodies) >= 2 {
		k.Label("fuzz/comp=on")
	}
	return nil
}
