// Package c03: a downstream returns each broker chunk / metadata once, in order, correctly resolved.
package c03

import (
	"bytes"
	"fmt"
	"reflect"
	"strings"
	"testing"

	"github.com/aptpod/iscp-go/message"
	"pgregory.net/rapid"

	"verifharness/dnk"
	"verifharness/ev"
	"verifharness/sim"
)

func TestMain(m *testing.M) { ev.MainExit(m, "C03") }

func summarize(h *dnk.History) any {
	var sent, read []string
	for _, s := range h.Sent {
		sent = append(sent, fmt.Sprintf("up=%s seq=%d groups=%d upAliased=%v idAliased=%d neg=%v", s.Info.SessionID, s.Seq, len(s.Groups), s.UpAliased, s.IDAliased, s.Negative))
	}
	for _, r := range h.Read {
		read = append(read, fmt.Sprintf("up=%s seq=%d groups=%d", r.UpstreamInfo.SessionID, r.SequenceNumber, len(r.DataPointGroups)))
	}
	if len(sent) > 100 {
		sent = sent[:100]
	}
	if len(read) > 100 {
		read = read[:100]
	}
	return map[string]any{"sent": sent, "read": read, "read_errors": h.ReadErrs}
}

func run(c dnk.Case, k *ev.Case) *ev.Failure {
	w := sim.NewWorld()
	defer w.Dispose()
	h, err := dnk.Run(c, w)
	if err != nil {
		return ev.Failf("harness", "%v", err)
	}
	if h.Abort != "" {
		ev.Aborted(h.Abort)
		return nil
	}
	fail := func(clause, format string, a ...any) *ev.Failure {
		return ev.Failf(clause, format, a...).WithHistory(summarize(h))
	}
	// expected deliveries: every non-negative chunk, in the broker's order
	var want []dnk.SentChunk
	negatives := 0
	for _, s := range h.Sent {
		if s.Negative {
			negatives++
		} else {
			want = append(want, s)
		}
	}
	var errs []string
	for _, e := range h.ReadErrs {
		if !strings.Contains(e, "closed iscp") {
			errs = append(errs, e)
		}
	}
	if len(h.Read) != len(want) {
		return fail("C03.1 count", "the broker sent %d well-formed chunks, ReadDataPoints returned %d (errors: %v)", len(want), len(h.Read), errs)
	}
	for i, r := range h.Read {
		s := want[i]
		if r.SequenceNumber != s.Seq || r.UpstreamInfo == nil || *r.UpstreamInfo != s.Info {
			got := "<nil>"
			if r.UpstreamInfo != nil {
				got = fmt.Sprintf("%+v", *r.UpstreamInfo)
			}
			return fail("C03.2 upstream-attribution", "delivery %d: got seq %d of upstream %s, the broker sent seq %d of %+v (alias form: %v)", i, r.SequenceNumber, got, s.Seq, s.Info, s.UpAliased)
		}
		if len(r.DataPointGroups) != len(s.Groups) {
			return fail("C03.3 groups", "delivery %d: %d groups, the broker sent %d", i, len(r.DataPointGroups), len(s.Groups))
		}
		for gi, g := range r.DataPointGroups {
			sg := s.Groups[gi]
			if g.DataID == nil || *g.DataID != sg.ID {
				return fail("C03.3 data-id-attribution", "delivery %d group %d: data id %v, the broker meant %v (aliased groups in chunk: %d)", i, gi, g.DataID, sg.ID, s.IDAliased)
			}
			if len(g.DataPoints) != len(sg.Points) {
				return fail("C03.3 points", "delivery %d group %d: %d points, sent %d", i, gi, len(g.DataPoints), len(sg.Points))
			}
			for pi, p := range g.DataPoints {
				if p.ElapsedTime != sg.Points[pi].ElapsedTime || !bytes.Equal(p.Payload, sg.Points[pi].Payload) {
					return fail("C03.3 points", "delivery %d group %d point %d altered", i, gi, pi)
				}
			}
		}
	}
	// a never-announced alias is reported as an error, never delivered
	if len(errs) != negatives {
		return fail("C03.4 unknown-alias", "%d chunks used an alias the client never announced, ReadDataPoints reported %d errors (%v)", negatives, len(errs), errs)
	}
	// metadata: per source node in the sent order, each once, deep-equal; one ack per delivered item with its request id
	bySrcSent := map[string][]dnk.SentMeta{}
	for _, m := range h.SentMeta {
		bySrcSent[m.Source] = append(bySrcSent[m.Source], m)
	}
	bySrcRead := map[string][]message.Metadata{}
	for _, m := range h.ReadMeta {
		bySrcRead[m.SourceNodeID] = append(bySrcRead[m.SourceNodeID], m.Metadata)
	}
	for src, sent := range bySrcSent {
		got := bySrcRead[src]
		if len(got) != len(sent) {
			return fail("C03.5 metadata", "source %s: %d metadata sent, %d read", src, len(sent), len(got))
		}
		for i := range sent {
			if !reflect.DeepEqual(got[i], sent[i].Meta) {
				return fail("C03.5 metadata", "source %s item %d: read %+v, sent %+v", src, i, got[i], sent[i].Meta)
			}
		}
	}
	for src := range bySrcRead {
		if len(bySrcSent[src]) == 0 {
			return fail("C03.5 metadata", "metadata read for source %s which the broker never used", src)
		}
	}
	acks := map[uint32]int{}
	for _, e := range h.Ledger {
		if a, ok := e.Msg.(*message.DownstreamMetadataAck); ok && e.In {
			acks[uint32(a.RequestID)]++
		}
	}
	for _, m := range h.SentMeta {
		if acks[m.RequestID] != 1 {
			return fail("C03.5 metadata-ack", "metadata with request id %d was delivered but acknowledged %d times", m.RequestID, acks[m.RequestID])
		}
		delete(acks, m.RequestID)
	}
	if len(acks) != 0 {
		return fail("C03.5 metadata-ack", "metadata acks for request ids that were never sent: %v", acks)
	}
	// classification
	ups, ids := map[string]bool{}, map[message.DataID]bool{}
	for _, s := range want {
		ups[s.Info.SessionID] = true
		for _, g := range s.Groups {
			ids[g.ID] = true
		}
	}
	k.Label(fmt.Sprintf("qos=%d", c.QoS))
	k.Label("codec=" + c.Codec)
	if h.SwitchedUp > 0 {
		k.Label("upstream-switched-to-alias")
	}
	if h.SwitchedID > 0 {
		k.Label("data-id-alias-used")
	}
	if h.FullAfterAnnounce > 0 {
		k.Label("full-form-after-announcement")
	}
	if negatives > 0 {
		k.Label("never-announced-alias")
	}
	if len(h.SentMeta) > 0 {
		k.Label("metadata")
	}
	if (len(ups) >= 2 || len(ids) >= 3) && (h.SwitchedUp > 0 || h.SwitchedID > 0) {
		k.NonTrivial(ev.JSON(c))
	}
	k.Sample(func() any { return map[string]any{"case": c, "history": summarize(h)} })
	return nil
}

var sub = ev.Sub[dnk.Case]{Name: "downstream", Repeats: 30, Q: 150, T: 5000, Gen: func(t *rapid.T) dnk.Case {
	c := dnk.Gen(t, 60, true)
	// a third of the cases run over a connection that also has a datagram transport (QUIC/WebTransport shape); unreliable QoS
	// is left out there because the scripted broker sends every chunk over the reliable transport
	if rapid.IntRange(0, 2).Draw(t, "datagram") == 0 {
		c.Datagram = true
		if c.QoS == 0 {
			c.QoS = rapid.IntRange(1, 2).Draw(t, "qos-datagram")
		}
	}
	return c
}, Run: run}

func TestProp(t *testing.T)   { sub.Check(t) }
func TestReplay(t *testing.T) { ev.ReplayTest(t, sub) }
