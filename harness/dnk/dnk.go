// Package dnk is the shared kit for downstream scenarios (C03, C04, C07): a scripted broker that
// sends chunks and metadata to one downstream, choosing full or alias form from what the client has
// announced so far, a keeping-up consumer, and the history both sides produce.
package dnk

import (
	"context"
	"errors"
	"fmt"
	"sync"
	"time"

	"github.com/aptpod/iscp-go/iscp"
	"github.com/aptpod/iscp-go/message"
	"github.com/google/uuid"
	"pgregory.net/rapid"

	"verifharness/sim"
)

// Item is one step of the broker script.
type Item struct {
	Kind string `json:"kind"` // chunk | meta | pause | bad-upalias | bad-idalias | cut
	// chunk
	Up     int    `json:"up,omitempty"`      // upstream index
	UpForm string `json:"up_form,omitempty"` // full | alias (alias if the client announced one, else full)
	Groups []Grp  `json:"groups,omitempty"`
	// meta
	Meta   int `json:"meta,omitempty"`   // metadata variant 0..8
	Source int `json:"source,omitempty"` // source node index
	// pause
	Us int `json:"us,omitempty"`
}

type Grp struct {
	ID     int    `json:"id"`     // data id index
	Form   string `json:"form"`   // full | alias
	Points int    `json:"points"` // number of points
	Size   int    `json:"size"`   // payload size
}

type Case struct {
	Codec       string `json:"codec"`
	QoS         int    `json:"qos"`
	PreIDs      int    `json:"pre_ids"` // data ids 0..PreIDs-1 are pre-registered
	Sources     int    `json:"sources"` // number of filters / source nodes
	AckFlushMs  int    `json:"ack_flush_ms"`
	Items       []Item `json:"items"`
	CloseMode   string `json:"close_mode"` // settled | immediate
	ReadDelayUs int    `json:"read_delay_us"`
	// Datagram: the connection also has an unreliable (datagram) transport, as QUIC and WebTransport connections do; reliable and
	// partial QoS chunks still travel on the reliable one (generators keep QoS in {reliable, partial} when this is set)
	Datagram bool `json:"datagram,omitempty"`
	// Readers: number of goroutines calling ReadDataPoints concurrently (0 = 1)
	Readers int `json:"readers,omitempty"`
	// ReadPollUs > 0: the application polls - every ReadDataPoints call gets its own context that ends after that many
	// microseconds (1 = practically expired on entry); a call that returns the context error is simply repeated
	ReadPollUs int `json:"read_poll_us,omitempty"`
	// CloseCtxMs > 0: deadline of the context passed to Close (default: 8 s). Used with an ack flush interval far longer than it:
	// the final acks still go out before the close request, because Close triggers them and does not wait for the next tick
	CloseCtxMs int `json:"close_ctx_ms,omitempty"`
}

func DataID(i int) *message.DataID {
	return &message.DataID{Name: fmt.Sprintf("d/%d", i), Type: fmt.Sprintf("ty%d", i%2)}
}

func UpInfo(i int) *message.UpstreamInfo {
	return &message.UpstreamInfo{SessionID: fmt.Sprintf("sess-%d", i), SourceNodeID: fmt.Sprintf("src-%d", i%3), StreamID: uuid.UUID{0x55, byte(i), 0, 0, 0, 0, 0x40, 0, 0x80}}
}

func SourceNode(i int) string { return fmt.Sprintf("src-%d", i) }

func Metadata(variant, n int) message.Metadata {
	sid := uuid.UUID{0x77, byte(n), byte(variant), 0, 0, 0, 0x40, 0, 0x80}
	switch variant % 9 {
	case 0:
		return &message.BaseTime{SessionID: fmt.Sprintf("s%d", n), Name: "bt", Priority: uint8(n), ElapsedTime: time.Duration(n) * time.Millisecond, BaseTime: time.Unix(1700000000+int64(n), 0).UTC()}
	case 1:
		return &message.UpstreamOpen{StreamID: sid, SessionID: fmt.Sprintf("s%d", n), QoS: message.QoSReliable}
	case 2:
		return &message.UpstreamAbnormalClose{StreamID: sid, SessionID: fmt.Sprintf("s%d", n)}
	case 3:
		return &message.UpstreamResume{StreamID: sid, SessionID: fmt.Sprintf("s%d", n), QoS: message.QoSPartial}
	case 4:
		return &message.UpstreamNormalClose{StreamID: sid, SessionID: fmt.Sprintf("s%d", n), TotalDataPoints: uint64(n), FinalSequenceNumber: uint32(n)}
	case 5:
		return &message.DownstreamOpen{StreamID: sid, DownstreamFilters: []*message.DownstreamFilter{}, QoS: message.QoSUnreliable}
	case 6:
		return &message.DownstreamAbnormalClose{StreamID: sid}
	case 7:
		return &message.DownstreamResume{StreamID: sid, DownstreamFilters: []*message.DownstreamFilter{}, QoS: message.QoSReliable}
	default:
		return &message.DownstreamNormalClose{StreamID: sid}
	}
}

// Gen draws a downstream case.
func Gen(t *rapid.T, maxItems int, withNegative bool) Case {
	c := Case{
		Codec:      rapid.SampledFrom([]string{"proto", "json"}).Draw(t, "codec"),
		QoS:        rapid.IntRange(0, 2).Draw(t, "qos"),
		ReadPollUs: rapid.SampledFrom([]int{0, 0, 0, 1, 50, 300}).Draw(t, "readpoll"),
		PreIDs:     rapid.IntRange(0, 3).Draw(t, "pre"),
		Sources:    rapid.IntRange(1, 3).Draw(t, "sources"),
		AckFlushMs: rapid.SampledFrom([]int{1, 2, 5, 10}).Draw(t, "ackflush"),
		CloseMode:  rapid.SampledFrom([]string{"settled", "immediate"}).Draw(t, "closemode"),
	}
	if rapid.IntRange(0, 3).Draw(t, "slowreader") == 0 {
		c.ReadDelayUs = rapid.IntRange(50, 800).Draw(t, "readdelay")
	}
	nups := rapid.IntRange(1, 5).Draw(t, "nups")
	nids := rapid.IntRange(1, 8).Draw(t, "nids")
	n := rapid.IntRange(1, maxItems).Draw(t, "nitems")
	upBias := rapid.SampledFrom([]string{"full", "alias", "mixed"}).Draw(t, "upbias")
	for i := 0; i < n; i++ {
		switch k := rapid.IntRange(0, 19).Draw(t, "itemkind"); {
		case k <= 13:
			it := Item{Kind: "chunk", Up: rapid.IntRange(0, nups-1).Draw(t, "up")}
			switch upBias {
			case "full":
				it.UpForm = "full"
			case "alias":
				it.UpForm = "alias"
			default:
				it.UpForm = rapid.SampledFrom([]string{"full", "alias"}).Draw(t, "upform")
			}
			ng := rapid.IntRange(0, 3).Draw(t, "ngroups")
			for g := 0; g < ng; g++ {
				it.Groups = append(it.Groups, Grp{ID: rapid.IntRange(0, nids-1).Draw(t, "id"), Form: rapid.SampledFrom([]string{"full", "alias", "alias"}).Draw(t, "idform"),
					Points: rapid.IntRange(0, 3).Draw(t, "npoints"), Size: rapid.SampledFrom([]int{0, 1, 8, 100}).Draw(t, "size")})
			}
			c.Items = append(c.Items, it)
		case k <= 15:
			c.Items = append(c.Items, Item{Kind: "meta", Meta: rapid.IntRange(0, 8).Draw(t, "variant"), Source: rapid.IntRange(0, c.Sources-1).Draw(t, "source")})
		case k <= 18:
			c.Items = append(c.Items, Item{Kind: "pause", Us: rapid.SampledFrom([]int{100, 1500, 3000, 12000}).Draw(t, "pause")})
		default:
			if withNegative {
				c.Items = append(c.Items, Item{Kind: rapid.SampledFrom([]string{"bad-upalias", "bad-idalias"}).Draw(t, "bad")})
			}
		}
	}
	return c
}

// SentChunk is a chunk as the broker sent it, with the resolution the client is expected to apply.
type SentChunk struct {
	Seq                      uint32
	Info                     message.UpstreamInfo
	Groups                   []ExpGroup
	UpAliased                bool
	IDAliased                int
	Negative                 bool
	T                        int64
	UpFullSeenBeforeAnnounce bool
}

type ExpGroup struct {
	ID     message.DataID
	Points []*message.DataPoint
}

type SentMeta struct {
	RequestID uint32
	Source    string
	Meta      message.Metadata
}

// History is everything observed in one run.
type History struct {
	Down                   *iscp.Downstream
	State                  *sim.DownState
	Sent                   []SentChunk // includes negatives
	SentMeta               []SentMeta
	Read                   []*iscp.DownstreamChunk
	ReadErrs               []string
	ReadMeta               []*iscp.DownstreamMetadata
	CloseErr               error
	CloseCalledAfterReads  int
	Ledger                 []*sim.Entry
	Abort                  string
	SwitchedUp, SwitchedID int // switches from full to alias after the announcement was received
	FullAfterAnnounce      int
	RepeatFullBeforeAck    int // same upstream in full form again before its alias was acknowledged
}

const perCall = 10 * time.Second

func readLoop(rctx context.Context, rwg *sync.WaitGroup, rmu *sync.Mutex, h *History, down *iscp.Downstream, c Case) {
	defer rwg.Done()
	for {
		pctx, pcancel := rctx, context.CancelFunc(func() {})
		if c.ReadPollUs > 0 {
			pctx, pcancel = context.WithTimeout(rctx, time.Duration(c.ReadPollUs)*time.Microsecond)
		}
		ch, err := down.ReadDataPoints(pctx)
		pcancel()
		if err != nil {
			if rctx.Err() != nil || err == context.Canceled {
				return
			}
			if c.ReadPollUs > 0 && errors.Is(err, context.DeadlineExceeded) {
				continue // poll again
			}
			rmu.Lock()
			h.ReadErrs = append(h.ReadErrs, err.Error())
			n := len(h.ReadErrs)
			rmu.Unlock()
			if n > 1000 {
				return
			}
			if isClosedErr(err) {
				return
			}
			continue
		}
		rmu.Lock()
		h.Read = append(h.Read, ch)
		rmu.Unlock()
		if c.ReadDelayUs > 0 {
			time.Sleep(time.Duration(c.ReadDelayUs) * time.Microsecond)
		}
	}
}

// Run executes the case. extraOpts are appended to the downstream options.
func Run(c Case, w *sim.World) (*History, error) {
	enc := iscp.EncodingNameProtobuf
	if c.Codec == "json" {
		enc = iscp.EncodingNameJSON
	}
	if c.Datagram {
		w.Unreliable = true
	}
	conn, err := w.Connect(iscp.WithConnEncoding(enc))
	if err != nil {
		return nil, fmt.Errorf("connect: %w", err)
	}
	defer sim.Call(perCall, func() { conn.Close(context.Background()) })
	var filters []*message.DownstreamFilter
	for i := 0; i < c.Sources; i++ {
		filters = append(filters, message.NewDownstreamFilterAllFor(SourceNode(i)))
	}
	var pre []*message.DataID
	for i := 0; i < c.PreIDs; i++ {
		pre = append(pre, DataID(i))
	}
	h := &History{}
	var down *iscp.Downstream
	ok, _ := sim.Call(perCall, func() {
		ctx, cancel := sim.Ctx(perCall)
		defer cancel()
		down, err = conn.OpenDownstream(ctx, filters, iscp.WithDownstreamQoS(message.QoS(c.QoS)), iscp.WithDownstreamDataIDs(pre),
			iscp.WithDownstreamAckFlushInterval(time.Duration(c.AckFlushMs)*time.Millisecond))
	})
	if !ok {
		h.Abort = "OpenDownstream"
		return h, nil
	}
	if err != nil {
		return nil, fmt.Errorf("open downstream: %w", err)
	}
	h.Down = down
	st := w.Broker.Downstream(down.ID)
	if st == nil {
		return nil, fmt.Errorf("broker does not know downstream %v", down.ID)
	}
	h.State = st
	inc := w.Broker.CurrentInc()

	var rmu sync.Mutex
	rctx, rcancel := context.WithCancel(context.Background())
	var rwg sync.WaitGroup
	readers := c.Readers
	if readers < 1 {
		readers = 1
	}
	rwg.Add(1 + readers)
	for ri := 0; ri < readers; ri++ {
		go readLoop(rctx, &rwg, &rmu, h, down, c)
	}
	go func() {
		defer rwg.Done()
		for {
			m, err := down.ReadMetadata(rctx)
			if err != nil {
				return
			}
			rmu.Lock()
			h.ReadMeta = append(h.ReadMeta, m)
			rmu.Unlock()
		}
	}()

	seq := map[int]uint32{}
	fullSent := map[int]int{}
	metaN := 0
	pt := 0
	for _, it := range c.Items {
		switch it.Kind {
		case "pause":
			time.Sleep(time.Duration(it.Us) * time.Microsecond)
		case "meta":
			metaN++
			m := Metadata(it.Meta, metaN)
			sm := SentMeta{RequestID: uint32(1000 + 2*metaN + 1), Source: SourceNode(it.Source), Meta: m}
			h.SentMeta = append(h.SentMeta, sm)
			inc.Send(&message.DownstreamMetadata{RequestID: message.RequestID(sm.RequestID), StreamIDAlias: st.Alias, SourceNodeID: sm.Source, Metadata: m})
		case "bad-upalias", "bad-idalias":
			seq[99]++
			sc := SentChunk{Seq: seq[99], Negative: true, T: sim.Since(w.Broker.T0)}
			msg := &message.DownstreamChunk{StreamIDAlias: st.Alias, StreamChunk: &message.StreamChunk{SequenceNumber: sc.Seq}}
			if it.Kind == "bad-upalias" {
				msg.UpstreamOrAlias = message.UpstreamAlias(4000000 + sc.Seq)
				msg.StreamChunk.DataPointGroups = []*message.DataPointGroup{{DataIDOrAlias: DataID(0), DataPoints: []*message.DataPoint{{ElapsedTime: 1, Payload: []byte("neg")}}}}
			} else {
				msg.UpstreamOrAlias = UpInfo(90)
				msg.StreamChunk.DataPointGroups = []*message.DataPointGroup{{DataIDOrAlias: message.DataIDAlias(4000000 + sc.Seq), DataPoints: []*message.DataPoint{{ElapsedTime: 1, Payload: []byte("neg")}}}}
			}
			h.Sent = append(h.Sent, sc)
			inc.Send(msg)
		case "chunk":
			// pacing: the consumer keeps up (outstanding far below the 1024-item buffers)
			for i := 0; i < 4000; i++ {
				rmu.Lock()
				out := len(h.Sent) - len(h.Read) - len(h.ReadErrs)
				rmu.Unlock()
				if out < 200 {
					break
				}
				time.Sleep(500 * time.Microsecond)
			}
			seq[it.Up]++
			info := UpInfo(it.Up)
			sc := SentChunk{Seq: seq[it.Up], Info: *info, T: sim.Since(w.Broker.T0)}
			msg := &message.DownstreamChunk{StreamIDAlias: st.Alias, StreamChunk: &message.StreamChunk{SequenceNumber: sc.Seq}}
			// what has the client announced so far?
			w.Broker.Lock()
			var upAlias uint32
			for a, inf := range st.UpstreamAliases {
				if inf == *info && (upAlias == 0 || a < upAlias) {
					upAlias = a
				}
			}
			idAlias := map[message.DataID]uint32{}
			for a, id := range st.DataIDAliases {
				if cur, ok := idAlias[id]; !ok || a < cur {
					idAlias[id] = a
				}
			}
			w.Broker.Unlock()
			if it.UpForm == "alias" && upAlias != 0 {
				msg.UpstreamOrAlias = message.UpstreamAlias(upAlias)
				sc.UpAliased = true
				if fullSent[it.Up] > 0 {
					h.SwitchedUp++
				}
			} else {
				msg.UpstreamOrAlias = info
				if upAlias != 0 {
					h.FullAfterAnnounce++
				} else if fullSent[it.Up] > 0 {
					h.RepeatFullBeforeAck++
				}
				fullSent[it.Up]++
			}
			for _, g := range it.Groups {
				id := DataID(g.ID)
				eg := ExpGroup{ID: *id}
				for p := 0; p < g.Points; p++ {
					pt++
					payload := make([]byte, g.Size)
					for j := range payload {
						payload[j] = byte(pt + j)
					}
					eg.Points = append(eg.Points, &message.DataPoint{ElapsedTime: time.Duration(pt) * time.Microsecond, Payload: payload})
				}
				mg := &message.DataPointGroup{DataPoints: eg.Points}
				if a, ok := idAlias[*id]; ok && g.Form == "alias" {
					mg.DataIDOrAlias = message.DataIDAlias(a)
					sc.IDAliased++
					h.SwitchedID++
				} else {
					mg.DataIDOrAlias = id
				}
				if mg.DataPoints == nil {
					mg.DataPoints = []*message.DataPoint{}
				}
				msg.StreamChunk.DataPointGroups = append(msg.StreamChunk.DataPointGroups, mg)
				sc.Groups = append(sc.Groups, eg)
			}
			h.Sent = append(h.Sent, sc)
			inc.Send(msg)
		}
	}
	// wait until the consumer has seen everything (or 3 s)
	deadline := time.Now().Add(3 * time.Second)
	for time.Now().Before(deadline) {
		rmu.Lock()
		done := len(h.Read)+len(h.ReadErrs) >= len(h.Sent) && len(h.ReadMeta) >= len(h.SentMeta)
		rmu.Unlock()
		if done {
			break
		}
		time.Sleep(200 * time.Microsecond)
	}
	if c.CloseMode == "settled" && c.AckFlushMs <= 50 {
		time.Sleep(time.Duration(c.AckFlushMs)*time.Millisecond*2 + time.Millisecond)
	}
	rmu.Lock()
	h.CloseCalledAfterReads = len(h.Read)
	rmu.Unlock()
	ok, _ = sim.Call(perCall+time.Second, func() {
		d := perCall
		if c.CloseCtxMs > 0 {
			d = time.Duration(c.CloseCtxMs) * time.Millisecond
		}
		ctx, cancel := sim.Ctx(d)
		defer cancel()
		h.CloseErr = down.Close(ctx)
	})
	if !ok {
		h.Abort = "Downstream.Close"
	}
	rcancel()
	rwg.Wait()
	time.Sleep(300 * time.Microsecond)
	h.Ledger = w.Broker.Ledger()
	return h, nil
}

func isClosedErr(err error) bool {
	return err != nil && (err.Error() == "closed iscp stream: iscp" || err.Error() == "closed iscp connection: iscp")
}
