// Package c08: no API call blocks forever; the dispatching keeps running; no lock stays held.
package c08

import (
	"fmt"
	"strings"
	"sync"
	"sync/atomic"
	"testing"
	"time"

	"github.com/aptpod/iscp-go/message"
	"pgregory.net/rapid"

	"verifharness/ev"
	"verifharness/scn"
	"verifharness/sim"
)

func TestMain(m *testing.M) { ev.MainExit(m, "C08") }

func up(name string, qos int) []scn.Op {
	return []scn.Op{{Kind: "open-up", Obj: name, QoS: qos}, {Kind: "write", Obj: name, N: 2}, {Kind: "write", Obj: name}, {Kind: "flush", Obj: name},
		{Kind: "write", Obj: name}, {Kind: "close-up", Obj: name}}
}

func down(name string, qos int) []scn.Op {
	return []scn.Op{{Kind: "open-down", Obj: name, QoS: qos}, {Kind: "read-data", Obj: name}, {Kind: "read-meta", Obj: name}, {Kind: "close-down", Obj: name}}
}

// long-lived upstream: the stream keeps living (and is looked at) well after a delayed or withheld answer came in
func upLong(name string, qos int) []scn.Op {
	return []scn.Op{{Kind: "open-up", Obj: name, QoS: qos}, {Kind: "write", Obj: name, N: 2}, {Kind: "flush", Obj: name}, {Kind: "sleep", N: 130000}, {Kind: "state", Obj: name},
		{Kind: "write", Obj: name}, {Kind: "flush", Obj: name}, {Kind: "sleep", N: 130000}, {Kind: "state", Obj: name}, {Kind: "write", Obj: name}, {Kind: "close-up", Obj: name}}
}

func downLong(name string, qos int) []scn.Op {
	return []scn.Op{{Kind: "open-down", Obj: name, QoS: qos}, {Kind: "read-data", Obj: name}, {Kind: "sleep", N: 130000}, {Kind: "state", Obj: name}, {Kind: "read-meta", Obj: name},
		{Kind: "read-data", Obj: name}, {Kind: "sleep", N: 130000}, {Kind: "state", Obj: name}, {Kind: "close-down", Obj: name}}
}

var templates = map[string]scn.Program{
	// Close with context.Background(): only the close timeout bounds it
	"upstream-close-background": {{{Kind: "open-up", Obj: "u", QoS: 1}, {Kind: "write", Obj: "u", N: 2}, {Kind: "flush", Obj: "u"}, {Kind: "write", Obj: "u"}, {Kind: "close-up", Obj: "u", BG: true}}},
	"conn-close-after-traffic": {{{Kind: "open-up", Obj: "u", QoS: 1}, {Kind: "write", Obj: "u"}, {Kind: "flush", Obj: "u"}, {Kind: "open-down", Obj: "d", QoS: 1}, {Kind: "read-data", Obj: "d"},
		{Kind: "meta"}, {Kind: "write", Obj: "u"}, {Kind: "conn-close"}}},
	// explicit flushes abandoned at every point of their exchange with the flush loop, then ordinary use and a background close
	"flush-abandoned-then-use": {{{Kind: "open-up", Obj: "u", QoS: 1}, {Kind: "write", Obj: "u", N: 2}, {Kind: "flush-racing", Obj: "u", N: 50}, {Kind: "write", Obj: "u"}, {Kind: "flush", Obj: "u"},
		{Kind: "flush-racing", Obj: "u", N: 50}, {Kind: "write", Obj: "u"}, {Kind: "state", Obj: "u"}, {Kind: "close-up", Obj: "u", BG: true}}},
	"upstream-long-lived":          {upLong("u", 1)},
	"up+down-long-lived":           {upLong("u", 0), downLong("d", 1)},
	"upstream-reliable":            {up("u", 1)},
	"upstream-unreliable":          {up("u", 0)},
	"downstream":                   {down("d", 1)},
	"metadata":                     {{{Kind: "meta"}, {Kind: "basetime"}}},
	"calls":                        {{{Kind: "call"}, {Kind: "call-wait"}, {Kind: "reply-call"}}, {{Kind: "recv-reply"}}},
	"conn-close-with-open-streams": {{{Kind: "open-up", Obj: "u", QoS: 1}, {Kind: "write", Obj: "u"}, {Kind: "open-down", Obj: "d", QoS: 1}, {Kind: "conn-close"}}},
	"up+down":                      {up("u", 1), down("d", 2)},
	"up+meta+call":                 {up("u", 2), {{Kind: "meta"}, {Kind: "call-wait"}}},
	"two-ups":                      {up("a", 1), up("b", 0)},
	"down+down":                    {down("d", 0), down("e", 1)},
}

var templateNames = func() []string {
	return []string{"upstream-reliable", "upstream-unreliable", "downstream", "metadata", "calls", "conn-close-with-open-streams", "up+down", "up+meta+call", "two-ups", "down+down",
		"upstream-long-lived", "up+down-long-lived", "upstream-close-background", "conn-close-after-traffic", "flush-abandoned-then-use"}
}()

var behaviours = []string{"answer", "delay", "drop", "sever-before", "sever-after", "mis-reqid", "mis-upalias", "mis-downalias", "mis-source", "mis-callid", "mis-reply",
	"replace-reqid", "replace-upalias", "replace-source", "replace-callid", "withhold-acks", "sever-outage", "delay-late", "sever-slow-resume"}

// Fault is one behaviour applied at one inbound message position.
type Fault struct {
	Pos       int    `json:"pos"` // 1-based position among the non-ping client messages of the first connection
	Behaviour string `json:"behaviour"`
	DelayMs   int    `json:"delay_ms,omitempty"`
}

type Case struct {
	Template string     `json:"template"`
	Faults   []Fault    `json:"faults"`
	Cfg      scn.Config `json:"cfg"`
	// PosFrac: when Faults[i].Pos == 0 the position is PosFrac[i] (per mille) of the template's reference length
	PosFrac []int `json:"pos_frac,omitempty"`
}

const slack = 2 * time.Second

func inject(inc *sim.Inc, kind string) {
	b := inc.B
	switch kind {
	case "reqid":
		inc.Send(&message.UpstreamOpenResponse{RequestID: 777777, ResultCode: message.ResultCodeSucceeded, ResultString: "stray", DataIDAliases: map[uint32]*message.DataID{}})
		inc.Send(&message.UpstreamMetadataAck{RequestID: 777779, ResultCode: message.ResultCodeSucceeded})
		inc.Send(&message.DownstreamCloseResponse{RequestID: 2_000_000_000, ResultCode: message.ResultCodeSucceeded})
	case "upalias":
		inc.Send(&message.UpstreamChunkAck{StreamIDAlias: 424242, Results: []*message.UpstreamChunkResult{{SequenceNumber: 1, ResultCode: message.ResultCodeSucceeded}}, DataIDAliases: map[uint32]*message.DataID{}})
	case "downalias":
		inc.Send(&message.DownstreamChunk{StreamIDAlias: 424242, UpstreamOrAlias: message.UpstreamAlias(9), StreamChunk: &message.StreamChunk{SequenceNumber: 1}})
		inc.Send(&message.DownstreamChunkAckComplete{StreamIDAlias: 424242, AckID: 1, ResultCode: message.ResultCodeSucceeded})
		inc.Send(&message.DownstreamMetadata{RequestID: 5, StreamIDAlias: 424242, SourceNodeID: "src-0", Metadata: &message.BaseTime{Name: "x", BaseTime: time.Unix(1, 0)}})
	case "source":
		alias := uint32(2)
		for _, d := range b.Downstreams() {
			alias = d.Alias
		}
		inc.Send(&message.DownstreamMetadata{RequestID: 7, StreamIDAlias: alias, SourceNodeID: "node-nobody-subscribed-to", Metadata: &message.BaseTime{Name: "x", BaseTime: time.Unix(1, 0)}})
	case "callid":
		inc.Send(&message.UpstreamCallAck{CallID: "foreign-call-id", ResultCode: message.ResultCodeSucceeded})
	case "reply":
		inc.Send(&message.DownstreamCall{CallID: "stray-reply", RequestCallID: "foreign-call-id", SourceNodeID: "x", Name: "x", Type: "x"})
	}
}

type outcome struct {
	recs     []*scn.Rec
	probes   []*scn.Rec
	held     []string
	ledger   []*sim.Entry
	startErr error
	startDur time.Duration
	fired    int
	npos     int
	outage   bool
	links    int // transports dialled during the case
	severs   int // sever behaviours that fired
}

func execute(c Case, faults []Fault) *outcome {
	w := sim.NewWorld()
	defer w.Dispose()
	b := w.Broker
	scn.Feed(b)
	o := &outcome{}
	var mu sync.Mutex
	withhold := false
	// sever-outage: the link is cut and every redial is refused until the program has finished
	var delayed sync.WaitGroup // answers still on their way
	var refuse atomic.Bool
	w.FailDial = func(int) bool { return refuse.Load() }
	b.OnChunk = nil
	var slowResume atomic.Bool // sever-slow-resume: resume requests on later connections are answered 150 ms late
	b.Hook = func(inc *sim.Inc, e *sim.Entry) sim.Verdict {
		if inc.Index != 0 && slowResume.Load() {
			switch e.Msg.(type) {
			case *message.UpstreamResumeRequest, *message.DownstreamResumeRequest:
				delayed.Add(1)
				go func() {
					defer delayed.Done()
					time.Sleep(150 * time.Millisecond)
					b.HandleDefault(inc, e)
				}()
				return sim.Handled
			}
		}
		if inc.Index != 0 || e.Pos == 0 {
			return sim.Default
		}
		mu.Lock()
		if e.Pos > o.npos {
			o.npos = e.Pos
		}
		wh := withhold
		mu.Unlock()
		if wh {
			if _, ok := e.Msg.(*message.UpstreamChunk); ok {
				return sim.Handled // never acknowledged
			}
		}
		for _, f := range faults {
			if f.Pos != e.Pos {
				continue
			}
			// Close(context.Background()): the library bounds the wait for acknowledgements by the close timeout, but the wait for
			// the close RESPONSE only by the caller's context (its own tests rely on that with a 1 ms close timeout). A broker that
			// never answers the close request therefore blocks such a call for good, by the caller's choice; the property names "the
			// bound that governs" a call, and there is none. So in the background-close template the close request itself is always
			// answered (an earlier version flagged these cases; a repair bounding the request by the close timeout broke the
			// repository's TestUpstream_Resume_Unreliable and was dropped).
			if _, isClose := e.Msg.(*message.UpstreamCloseRequest); isClose && (c.Template == "upstream-close-background" || c.Template == "flush-abandoned-then-use") {
				switch f.Behaviour {
				case "drop", "replace-reqid", "replace-upalias", "replace-source", "replace-callid":
					return sim.Default
				}
			}
			mu.Lock()
			o.fired++
			mu.Unlock()
			switch f.Behaviour {
			case "answer":
				return sim.Default
			case "delay":
				delayed.Add(1)
				go func() {
					defer delayed.Done()
					time.Sleep(time.Duration(f.DelayMs) * time.Millisecond)
					b.HandleDefault(inc, e)
					if b.After != nil {
						b.After(inc, e)
					}
				}()
				return sim.Handled
			case "drop":
				return sim.Handled
			case "sever-before":
				mu.Lock()
				o.severs++
				mu.Unlock()
				return sim.SeverBefore
			case "sever-after":
				mu.Lock()
				o.severs++
				mu.Unlock()
				return sim.SeverAfter
			case "sever-slow-resume":
				// the link is cut and, on the next connection, the streams' resume requests are answered 150 ms late: the program goes on
				// (flush, close, open) while its streams are in the middle of their resume exchange
				mu.Lock()
				o.severs++
				mu.Unlock()
				slowResume.Store(true)
				return sim.SeverBefore
			case "sever-outage":
				mu.Lock()
				o.severs++
				o.outage = true
				mu.Unlock()
				refuse.Store(true)
				return sim.SeverBefore
			case "withhold-acks":
				mu.Lock()
				withhold = true
				mu.Unlock()
				if _, ok := e.Msg.(*message.UpstreamChunk); ok {
					return sim.Handled
				}
				return sim.Default
			}
			if len(f.Behaviour) > 4 && f.Behaviour[:4] == "mis-" {
				inject(inc, f.Behaviour[4:])
				return sim.Default
			}
			if len(f.Behaviour) > 8 && f.Behaviour[:8] == "replace-" {
				inject(inc, f.Behaviour[8:])
				return sim.Handled
			}
		}
		return sim.Default
	}
	t0 := time.Now()
	var env *scn.Env
	var err error
	ok, _ := sim.Call(10*time.Second, func() { env, err = scn.Start(w, c.Cfg) })
	o.startDur = time.Since(t0)
	if !ok {
		o.startErr = fmt.Errorf("Connect did not return")
		o.recs = []*scn.Rec{{Op: scn.Op{Kind: "connect"}, Hung: true, Dur: o.startDur}}
		return o
	}
	if err != nil {
		o.startErr = err
		return o
	}
	env.Run(templates[c.Template])
	refuse.Store(false)
	o.recs = env.Records()
	// later calls still work (unless the program closed the connection itself)
	closedByProgram := false
	for _, r := range o.recs {
		if r.Op.Kind == "conn-close" {
			closedByProgram = true
		}
	}
	mu.Lock()
	withhold = false
	faults = nil
	mu.Unlock()
	// late answers (delayed beyond the caller's deadline) must have come in before the probe: the property is about what the
	// connection does AFTER them (seeded change C08/m3: an ack for a call whose caller had given up blocked the ack dispatcher)
	sim.Call(3*time.Second, delayed.Wait)
	time.Sleep(2 * time.Millisecond)
	if !closedByProgram {
		probe := scn.Program{{{Kind: "open-up", Obj: "probe-u", QoS: 1, CtxMs: 3000}, {Kind: "write", Obj: "probe-u", CtxMs: 3000}, {Kind: "flush", Obj: "probe-u", CtxMs: 3000}, {Kind: "close-up", Obj: "probe-u", CtxMs: 3000},
			{Kind: "open-down", Obj: "probe-d", QoS: 1, CtxMs: 3000}, {Kind: "read-data", Obj: "probe-d", CtxMs: 3000}, {Kind: "close-down", Obj: "probe-d", CtxMs: 3000},
			{Kind: "meta", CtxMs: 3000}, {Kind: "call", CtxMs: 3000}}}
		n := len(env.Records())
		env.Run(probe)
		o.probes = env.Records()[n:]
		time.Sleep(2 * time.Millisecond)
		o.held = env.LockProbe(100, 200*time.Millisecond)
		sim.Call(5*time.Second, func() { env.Do(9, 0, scn.Op{Kind: "conn-close", CtxMs: 1000}) })
	} else {
		time.Sleep(2 * time.Millisecond)
		o.held = env.LockProbe(100, 200*time.Millisecond)
	}
	o.ledger = b.Ledger()
	o.links = len(w.Links())
	return o
}

var (
	refMu  sync.Mutex
	refLen = map[string]int{}
)

// reference run: number of non-ping client messages of the template on a cooperative broker
func reference(tmpl string) int {
	refMu.Lock()
	defer refMu.Unlock()
	if n, ok := refLen[tmpl]; ok {
		return n
	}
	o := execute(Case{Template: tmpl, Cfg: scn.Config{CtxMs: 2000, CloseTimeoutMs: 500, PingMs: 200, PingTimeoutMs: 1500}}, nil)
	n := 0
	for _, e := range o.ledger {
		if e.In && e.Inc == 0 && e.Pos > n {
			n = e.Pos
		}
	}
	// the probe and the final close add their own messages at the end; count only up to the template's own traffic
	refLen[tmpl] = n
	return n
}

func run(c Case, k *ev.Case) *ev.Failure {
	if _, ok := templates[c.Template]; !ok {
		return ev.Failf("harness", "unknown template %q", c.Template)
	}
	faults := append([]Fault(nil), c.Faults...)
	if len(c.PosFrac) > 0 {
		n := reference(c.Template)
		for i := range faults {
			if faults[i].Pos == 0 && i < len(c.PosFrac) {
				faults[i].Pos = 2 + c.PosFrac[i]*(n-1)/1000 // position 1 is the connect request (exempt from drop)
			}
		}
	}
	cfg := c.Cfg
	o := execute(c, faults)
	hist := func() any {
		return map[string]any{"calls": scn.Summary(o.recs), "probe": scn.Summary(o.probes), "ledger": scn.LedgerSummary(o.ledger, 120), "faults": faults}
	}
	bound := time.Duration(cfg.CtxMs+cfg.CloseTimeoutMs+2*cfg.PingMs)*time.Millisecond + slack
	if cfg.CtxMs == 0 {
		bound += 300 * time.Millisecond
	}
	k.Label("template=" + c.Template)
	for _, f := range faults {
		k.Label("behaviour=" + f.Behaviour)
	}
	if o.fired > 0 {
		k.Label("fault-fired")
		nt := false
		for _, f := range faults {
			if f.Behaviour != "answer" {
				nt = true
			}
		}
		if nt {
			k.NonTrivial(ev.JSON(c) + fmt.Sprint(faults))
		}
	} else {
		k.Label("fault-did-not-fire")
	}
	k.Sample(func() any { return map[string]any{"case": c, "faults": faults, "calls": scn.Summary(o.recs)} })
	if o.startErr != nil {
		if o.startDur > 5*time.Second {
			return ev.Failf("C08.1 connect-hang", "Connect took %v (%v)", o.startDur, o.startErr).WithHistory(hist())
		}
		k.Label("connect-failed")
		return nil
	}
	for _, r := range o.recs {
		if r.Panic != "" {
			return ev.Failf("C08.1 panic", "%s %s panicked: %s", r.Op.Kind, r.Op.Obj, r.Panic).WithHistory(hist())
		}
		if r.Hung {
			return ev.Failf("C08.1 call-blocked", "%s %s (context %v) was still blocked after %v; faults %v", r.Op.Kind, r.Op.Obj, r.Bound, r.Dur.Round(time.Millisecond), faults).WithHistory(hist())
		}
		if r.Op.Kind != "sleep" && r.Dur > bound {
			return ev.Failf("C08.1 call-late", "%s %s returned after %v; every bound in this scenario (context %d ms, close timeout %d ms, keepalive %d+%d ms) plus %v slack is %v", r.Op.Kind, r.Op.Obj,
				r.Dur.Round(time.Millisecond), cfg.CtxMs, cfg.CloseTimeoutMs, cfg.PingMs, cfg.PingMs, slack, bound).WithHistory(hist())
		}
	}
	// an outage nobody planned (the keepalive gave up on a starved process, or the library dropped a healthy connection - C15's and
	// C05's business): the probe no longer talks to a cooperative broker over a healthy link, so its errors prove nothing. Blocked
	// calls and leaked locks are still judged.
	// after an outage with refused redials the library is in its redial back-off when the probe starts: same reasoning
	disturbed := o.links > 1+o.severs || o.outage
	if disturbed {
		k.Label("unplanned-reconnect")
		ev.TimingInconclusive()
	}
	for _, r := range o.probes {
		if r.Hung || r.Panic != "" {
			return ev.Failf("C08.2 later-call-blocked", "after the scenario the cooperative broker's probe call %s %s is blocked (hung=%v panic=%q); faults %v", r.Op.Kind, r.Op.Obj, r.Hung, r.Panic, faults).WithHistory(hist())
		}
		if r.Err != "" && !disturbed {
			return ev.Failf("C08.2 later-call-fails", "after the scenario, with a cooperative broker, %s %s fails: %s; faults %v", r.Op.Kind, r.Op.Obj, r.Err, faults).WithHistory(hist())
		}
	}
	if len(o.held) > 0 {
		return ev.Failf("C08.3 lock-leaked", "at quiescence these locks cannot be taken (100 attempts over 200 ms): %v; faults %v", o.held, faults).WithHistory(hist())
	}
	return nil
}

func genCfg(t *rapid.T) scn.Config {
	return scn.Config{Codec: rapid.SampledFrom([]string{"proto", "json"}).Draw(t, "codec"), PingMs: 30, PingTimeoutMs: 1500, CtxMs: rapid.SampledFrom([]int{50, 100, 200, 300}).Draw(t, "ctx"),
		CloseTimeoutMs: rapid.SampledFrom([]int{50, 100, 200}).Draw(t, "closeto"), AckTimeoutMs: rapid.SampledFrom([]int{0, 0, 50}).Draw(t, "ackto")}
}

var sub = ev.Sub[Case]{Name: "faults", Repeats: 5, Q: 20, T: 600,
	Gen: func(t *rapid.T) Case {
		c := Case{Template: rapid.SampledFrom(templateNames).Draw(t, "template"), Cfg: genCfg(t)}
		nf := 1
		if ev.Thorough() && rapid.Bool().Draw(t, "pair") {
			nf = 2
		}
		for i := 0; i < nf; i++ {
			f := Fault{Behaviour: rapid.SampledFrom(behaviours).Draw(t, "behaviour")}
			if f.Behaviour == "delay-late" {
				f.Behaviour, f.DelayMs = "delay", c.Cfg.CtxMs+rapid.IntRange(10, c.Cfg.CtxMs).Draw(t, "lateby")
			} else if f.Behaviour == "delay" {
				f.DelayMs = rapid.IntRange(1, c.Cfg.CtxMs*8/10).Draw(t, "delay")
				if rapid.IntRange(0, 2).Draw(t, "late") == 0 { // the answer comes after the caller has given up
					f.DelayMs = c.Cfg.CtxMs + rapid.IntRange(10, c.Cfg.CtxMs).Draw(t, "lateby")
				}
			}
			c.Faults = append(c.Faults, f)
			c.PosFrac = append(c.PosFrac, rapid.IntRange(0, 999).Draw(t, "posfrac"))
		}
		return c
	}, Run: run}

func TestProp(t *testing.T) { sub.Check(t) }

// TestEnumerate: every behaviour at every message position of every template (sharded).
func TestEnumerate(t *testing.T) {
	idx := 0
	// two configurations: without an ack timeout, and with one that is shorter than the delay behaviour (answers arriving after the
	// library gave up waiting for them)
	cfgs := []scn.Config{{PingMs: 30, PingTimeoutMs: 1500, CtxMs: 200, CloseTimeoutMs: 100}, {PingMs: 30, PingTimeoutMs: 1500, CtxMs: 200, CloseTimeoutMs: 100, AckTimeoutMs: 30}}
	total, failed := 0, 0
	for ci, cfg := range cfgs {
		for _, tn := range templateNames {
			if ci == 1 && !strings.Contains(tn, "up") {
				continue // the ack timeout only concerns upstreams
			}
			n := reference(tn)
			for pos := 2; pos <= n; pos++ {
				for _, bh := range behaviours {
					idx++
					if idx%ev.NShards() != ev.ShardIndex() {
						continue
					}
					f := Fault{Pos: pos, Behaviour: bh}
					if bh == "delay" {
						f.DelayMs = 60
					}
					if bh == "delay-late" {
						f.Behaviour, f.DelayMs = "delay", cfg.CtxMs+100
					}
					total++
					if !sub.One(t, Case{Template: tn, Faults: []Fault{f}, Cfg: cfg}) {
						failed++
						if failed >= 3 {
							ev.SetExhaustive("position-x-behaviour", false)
							return
						}
					}
				}
			}
		}
	}
	ev.SetExhaustive("position-x-behaviour", failed == 0)
	ev.AddExtra("enumerated_fault_cases", int64(total))
}

func TestReplay(t *testing.T) { ev.ReplayTest(t, sub) }

// TestRegress: repaired defects (known_findings.json, status fixed).
func TestRegress(t *testing.T) {
	if ev.ShardIndex() != 0 {
		t.Skip("shard 0")
	}
	cfg := scn.Config{PingMs: 30, PingTimeoutMs: 1500, CtxMs: 200, CloseTimeoutMs: 100}
	// C08-upstream-close-ignores-ctx: acks withheld from the first chunk on, then Close
	sub.One(t, Case{Template: "upstream-reliable", Faults: []Fault{{Pos: 3, Behaviour: "withhold-acks"}}, Cfg: cfg})
	sub.One(t, Case{Template: "upstream-reliable", Faults: []Fault{{Pos: 3, Behaviour: "sever-before"}}, Cfg: cfg})
	// C08-metadata-unsubscribed-source: leaked read lock
	sub.One(t, Case{Template: "downstream", Faults: []Fault{{Pos: 2, Behaviour: "mis-source"}}, Cfg: cfg})
	sub.One(t, Case{Template: "down+down", Faults: []Fault{{Pos: 3, Behaviour: "replace-source"}}, Cfg: cfg})
	// seeded change C08/m1 (close timeout not armed during the wait for acks): Close(context.Background()) with withheld acks
	sub.One(t, Case{Template: "upstream-close-background", Faults: []Fault{{Pos: 3, Behaviour: "withhold-acks"}}, Cfg: cfg})
	// C08-call-waits-for-conn-mutex-during-outage: link cut + refused redials while calls are in progress
	sub.One(t, Case{Template: "up+meta+call", Faults: []Fault{{Pos: 2, Behaviour: "sever-outage"}}, Cfg: cfg})
	sub.One(t, Case{Template: "conn-close-after-traffic", Faults: []Fault{{Pos: 4, Behaviour: "sever-outage"}}, Cfg: cfg})
	// C08-late-ack-after-ack-timeout: the ack of the first chunk arrives after the ack timeout while the stream lives on
	cfgAck := scn.Config{PingMs: 30, PingTimeoutMs: 1500, CtxMs: 200, CloseTimeoutMs: 100, AckTimeoutMs: 30}
	sub.One(t, Case{Template: "upstream-long-lived", Faults: []Fault{{Pos: 3, Behaviour: "delay", DelayMs: 60}}, Cfg: cfgAck})
	sub.One(t, Case{Template: "upstream-long-lived", Faults: []Fault{{Pos: 4, Behaviour: "delay", DelayMs: 90}}, Cfg: cfgAck})
}
