// Package c13: transports keep message boundaries, bytes and order in every compression mode.
// This package drives the WebSocket transport over an in-memory websocket.Conn, the QUIC transport over an
// in-memory quic.Connection (with short reads) and over a real loop-back QUIC pair, and the WebTransport
// transport over a real loop-back pair. The three real WebSocket backends have their own packages.
package c13

import (
	"bytes"
	"context"
	"crypto/ecdsa"
	"crypto/elliptic"
	"crypto/rand"
	"crypto/tls"
	"crypto/x509"
	"crypto/x509/pkix"
	"fmt"
	"io"
	"math/big"
	"net/http"
	"sync"
	"testing"
	"time"

	"github.com/aptpod/iscp-go/transport"
	"github.com/aptpod/iscp-go/transport/compress"
	tquic "github.com/aptpod/iscp-go/transport/quic"
	"github.com/aptpod/iscp-go/transport/websocket"
	twt "github.com/aptpod/iscp-go/transport/webtransport"
	quicgo "github.com/quic-go/quic-go"
	"github.com/quic-go/quic-go/http3"
	webtransgo "github.com/quic-go/webtransport-go"
	"pgregory.net/rapid"

	"verifharness/ev"
	"verifharness/fakequic"
	"verifharness/tk"
)

func TestMain(m *testing.M) { ev.MainExit(m, "C13") }

// ---------------------------------------------------------------------------------------------
// in-memory websocket.Conn pair with a single, strictly exclusive writer (gorilla's contract)

type wsPipe struct {
	mu       sync.Mutex
	cond     *sync.Cond
	frames   [][]byte
	captured [][]byte
	closed   bool
}

func newWSPipe() *wsPipe { p := &wsPipe{}; p.cond = sync.NewCond(&p.mu); return p }

type wsEnd struct {
	out, in *wsPipe
	wmu     sync.Mutex
}

type wsWriter struct {
	e    *wsEnd
	buf  bytes.Buffer
	done bool
}

func (w *wsWriter) Write(p []byte) (int, error) { return w.buf.Write(p) }
func (w *wsWriter) Close() error {
	if w.done {
		return nil
	}
	w.done = true
	f := append([]byte(nil), w.buf.Bytes()...)
	w.e.out.mu.Lock()
	w.e.out.frames = append(w.e.out.frames, f)
	w.e.out.captured = append(w.e.out.captured, f)
	w.e.out.cond.Broadcast()
	w.e.out.mu.Unlock()
	w.e.wmu.Unlock()
	return nil
}

func (e *wsEnd) Writer(ctx context.Context, _ websocket.MessageType) (io.WriteCloser, error) {
	// one writer at a time, and - as with gorilla, which is not goroutine-safe - a second writer while one
	// is open is an error rather than a wait: the transport itself has to serialise its writers
	if !e.wmu.TryLock() {
		return nil, fmt.Errorf("concurrent write to websocket connection: a writer is still open")
	}
	return &wsWriter{e: e}, nil
}

func (e *wsEnd) Reader(ctx context.Context) (websocket.MessageType, io.Reader, error) {
	e.in.mu.Lock()
	defer e.in.mu.Unlock()
	for len(e.in.frames) == 0 {
		if e.in.closed {
			return 0, nil, transport.EOF
		}
		e.in.cond.Wait()
	}
	f := e.in.frames[0]
	e.in.frames = e.in.frames[1:]
	return websocket.MessageBinary, bytes.NewReader(f), nil
}
func (e *wsEnd) Close() error               { return e.CloseWithStatus(transport.CloseStatusNormal) }
func (e *wsEnd) Ping(context.Context) error { return nil }
func (e *wsEnd) CloseWithStatus(transport.CloseStatus) error {
	for _, p := range []*wsPipe{e.in, e.out} {
		p.mu.Lock()
		p.closed = true
		p.cond.Broadcast()
		p.mu.Unlock()
	}
	return nil
}

// bases: the two peers use different base configs on purpose (C17: the derived config depends on the parameters only)
var baseA = tk.BaseA

// peerBase: a different base whenever the parameters name type, level and window; the same base otherwise
func peerBase(c tk.Comp) compress.Config {
	if c.FullyNamed() {
		return compress.Config{Enable: true, Level: 9, WindowBits: 12, DisableContextTakeover: false}
	}
	return baseA
}

func wsPair(c tk.Comp) *tk.Pair {
	ab, ba := newWSPipe(), newWSPipe()
	ea, eb := &wsEnd{out: ab, in: ba}, &wsEnd{out: ba, in: ab}
	np := websocket.NegotiationParams{NegotiationParams: c.Params()}
	a := websocket.New(websocket.Config{Conn: ea, NegotiationParams: np, CompressConfig: baseA})
	b := websocket.New(websocket.Config{Conn: eb, NegotiationParams: np, CompressConfig: peerBase(c)})
	return &tk.Pair{A: a, B: b, Close: func() { a.Close(); b.Close() },
		Frames: func() ([][]byte, []byte, bool) {
			ab.mu.Lock()
			defer ab.mu.Unlock()
			return append([][]byte(nil), ab.captured...), nil, true
		}}
}

func quicFakePair(c tk.Comp, readMax func() int) (*tk.Pair, error) {
	ca, cb := fakequic.Pair(readMax)
	np := tquic.NegotiationParams{NegotiationParams: c.Params()}
	a, err := tquic.New(tquic.Config{Connection: ca, NegotiationParams: np, CompressConfig: baseA})
	if err != nil {
		return nil, err
	}
	b, err := tquic.New(tquic.Config{Connection: cb, NegotiationParams: np, CompressConfig: peerBase(c)})
	if err != nil {
		return nil, err
	}
	return &tk.Pair{A: a, B: b, Close: func() { a.Close(); b.Close() },
		Frames: func() ([][]byte, []byte, bool) { return nil, ca.CapturedOut(), true }}, nil
}

// ---------------------------------------------------------------------------------------------
// sub-checks

type Case struct {
	tk.Case
	ReadMax int `json:"read_max"` // quic fake: maximum bytes per stream read (0 = unlimited)
}

var subWS = ev.Sub[Case]{Name: "websocket-inmem", Q: 400, T: 12000,
	Gen: func(t *rapid.T) Case { return Case{Case: tk.Gen(t, nil, 40, true)} },
	Run: func(c Case, k *ev.Case) *ev.Failure {
		p := wsPair(c.Comp)
		defer p.Close()
		return tk.Run(c.Case, p, k, "websocket")
	}}

var subQF = ev.Sub[Case]{Name: "quic-inmem", Q: 250, T: 8000,
	Gen: func(t *rapid.T) Case {
		return Case{Case: tk.Gen(t, nil, 30, true), ReadMax: rapid.SampledFrom([]int{0, 1, 3, 7, 1000}).Draw(t, "readmax")}
	},
	Run: func(c Case, k *ev.Case) *ev.Failure {
		var rm func() int
		if c.ReadMax > 0 {
			rm = func() int { return c.ReadMax }
		}
		p, err := quicFakePair(c.Comp, rm)
		if err != nil {
			return ev.Failf("harness", "quic.New: %v", err)
		}
		defer p.Close()
		if c.ReadMax > 0 {
			k.Label("short-reads")
		}
		return tk.Run(c.Case, p, k, "quic")
	}}

func TestWebSocketInMem(t *testing.T) { subWS.Check(t) }
func TestQUICInMem(t *testing.T)      { subQF.Check(t) }

// TestGrid: every cell of the compression grid, with a fixed dictionary-sensitive sequence, over both in-memory peers.
func TestGrid(t *testing.T) {
	grid := tk.Grid()
	seqs := [][]tk.Msg{
		// compressible throughout (no stored blocks): explores the dictionary logic in every takeover cell
		{{Size: 300, Kind: "periodic", Seed: 3}, {Size: 300, Kind: "prev"}, {Size: 0, Kind: "const"}, {Size: 1, Kind: "const", Seed: 7}, {Size: 70000, Kind: "periodic", Seed: 5},
			{Size: 70000, Kind: "prev"}, {Size: 33000, Kind: "prefix", Seed: 4}, {Size: 257, Kind: "prefix", Seed: 0}, {Size: 1025, Kind: "const", Seed: 9}, {Size: 1025, Kind: "prev"},
			{Size: 32769, Kind: "periodic", Seed: 11}, {Size: 65537, Kind: "prev-compressible", Seed: 2}},
		{{Size: 300, Kind: "periodic", Seed: 3}, {Size: 300, Kind: "prev"}, {Size: 0, Kind: "const"}, {Size: 1, Kind: "const", Seed: 7}, {Size: 70000, Kind: "random", Seed: 5},
			{Size: 70000, Kind: "prev"}, {Size: 33000, Kind: "prefix", Seed: 4}, {Size: 257, Kind: "prefix", Seed: 0}, {Size: 1025, Kind: "random", Seed: 9}, {Size: 1025, Kind: "prev"}},
	}
	n := 0
	ok := true
	for gi, comp := range grid {
		if gi%ev.NShards() != ev.ShardIndex() {
			continue
		}
		for _, s := range seqs {
			c := Case{Case: tk.Case{Comp: comp, Writers: 1, Msgs: s}}
			n++
			ok = subWS.One(t, c) && ok
			c.ReadMax = 3
			ok = subQF.One(t, c) && ok
			// concurrent writers in the same cell
			var ms []tk.Msg
			for i := 0; i < 24; i++ {
				ms = append(ms, tk.Msg{Writer: i % 3, Size: 40 + 37*i, Kind: []string{"periodic", "random", "prev"}[i%3], Seed: i})
			}
			ok = subWS.One(t, Case{Case: tk.Case{Comp: comp, Writers: 3, Msgs: ms}}) && ok
		}
		if !ok {
			break
		}
	}
	ev.SetExhaustive("compression-grid", ok)
	ev.AddExtra("grid_cells", int64(n))
}

// ---------------------------------------------------------------------------------------------
// real loop-back QUIC and WebTransport

func selfSigned() *tls.Config {
	key, _ := ecdsa.GenerateKey(elliptic.P256(), rand.Reader)
	tmpl := &x509.Certificate{SerialNumber: big.NewInt(1), Subject: pkix.Name{CommonName: "localhost"}, NotBefore: time.Now().Add(-time.Hour), NotAfter: time.Now().Add(24 * time.Hour),
		DNSNames: []string{"localhost"}, KeyUsage: x509.KeyUsageDigitalSignature, ExtKeyUsage: []x509.ExtKeyUsage{x509.ExtKeyUsageServerAuth}}
	der, _ := x509.CreateCertificate(rand.Reader, tmpl, tmpl, &key.PublicKey, key)
	return &tls.Config{Certificates: []tls.Certificate{{Certificate: [][]byte{der}, PrivateKey: key}}}
}

var (
	tlsOnce sync.Once
	tlsConf *tls.Config
)

func serverTLS() *tls.Config {
	tlsOnce.Do(func() { tlsConf = selfSigned() })
	return tlsConf.Clone()
}

func quicRealPair(c tk.Comp) (*tk.Pair, error) {
	st := serverTLS()
	st.NextProtos = []string{"iscp"}
	lis, err := quicgo.ListenAddr("127.0.0.1:0", st, &quicgo.Config{EnableDatagrams: true})
	if err != nil {
		return nil, err
	}
	type res struct {
		c   quicgo.Connection
		err error
	}
	ch := make(chan res, 1)
	go func() {
		conn, err := lis.Accept(context.Background())
		ch <- res{conn, err}
	}()
	ctx, cancel := context.WithTimeout(context.Background(), 10*time.Second)
	defer cancel()
	cc, err := quicgo.DialAddr(ctx, lis.Addr().String(), &tls.Config{InsecureSkipVerify: true, NextProtos: []string{"iscp"}}, &quicgo.Config{EnableDatagrams: true})
	if err != nil {
		lis.Close()
		return nil, err
	}
	sr := <-ch
	if sr.err != nil {
		lis.Close()
		return nil, sr.err
	}
	np := tquic.NegotiationParams{NegotiationParams: c.Params()}
	a, err := tquic.New(tquic.Config{Connection: cc, NegotiationParams: np, CompressConfig: baseA})
	if err != nil {
		return nil, err
	}
	b, err := tquic.New(tquic.Config{Connection: sr.c, NegotiationParams: np, CompressConfig: peerBase(c)})
	if err != nil {
		return nil, err
	}
	return &tk.Pair{A: a, B: b, Close: func() { a.Close(); b.Close(); lis.Close() }}, nil
}

func wtRealPair(c tk.Comp) (*tk.Pair, error) {
	sess := make(chan *webtransgo.Session, 1)
	done := make(chan struct{})
	// pick a free UDP port
	probe, err := quicgo.ListenAddr("127.0.0.1:0", func() *tls.Config { t := serverTLS(); t.NextProtos = []string{"x"}; return t }(), nil)
	if err != nil {
		return nil, err
	}
	addr := probe.Addr().String()
	probe.Close()
	sv := &webtransgo.Server{CheckOrigin: func(*http.Request) bool { return true }, H3: http3.Server{Addr: addr, TLSConfig: serverTLS()}}
	sv.H3.Handler = http.HandlerFunc(func(w http.ResponseWriter, r *http.Request) {
		s, err := sv.Upgrade(w, r)
		if err != nil {
			http.Error(w, "upgrade failed", 500)
			return
		}
		sess <- s
		<-done
	})
	go sv.ListenAndServe()
	var cs *webtransgo.Session
	var derr error
	for i := 0; i < 50; i++ {
		d := &webtransgo.Dialer{TLSClientConfig: &tls.Config{InsecureSkipVerify: true}}
		ctx, cancel := context.WithTimeout(context.Background(), 15*time.Second)
		_, cs, derr = d.Dial(ctx, "https://"+addr+"/wt", nil)
		cancel()
		if derr == nil {
			break
		}
		time.Sleep(20 * time.Millisecond)
	}
	if derr != nil {
		close(done)
		sv.Close()
		return nil, derr
	}
	var ss *webtransgo.Session
	select {
	case ss = <-sess:
	case <-time.After(20 * time.Second):
		close(done)
		sv.Close()
		return nil, fmt.Errorf("server session not established")
	}
	np := twt.NegotiationParams{NegotiationParams: c.Params()}
	a, err := twt.New(twt.Config{Connection: cs, NegotiationParams: np, CompressConfig: baseA})
	if err != nil {
		return nil, err
	}
	b, err := twt.New(twt.Config{Connection: ss, NegotiationParams: np, CompressConfig: peerBase(c)})
	if err != nil {
		return nil, err
	}
	return &tk.Pair{A: a, B: b, Close: func() { a.Close(); b.Close(); close(done); sv.Close() }}, nil
}

var subQR = ev.Sub[Case]{Name: "quic-loopback", Q: 12, T: 300,
	Gen: func(t *rapid.T) Case { return Case{Case: tk.Gen(t, nil, 25, false)} },
	Run: func(c Case, k *ev.Case) *ev.Failure {
		p, err := quicRealPair(c.Comp)
		if err != nil {
			return ev.Failf("harness", "loop-back QUIC pair: %v", err)
		}
		defer p.Close()
		return tk.Run(c.Case, p, k, "quic-real")
	}}

var subWT = ev.Sub[Case]{Name: "webtransport-loopback", Q: 8, T: 200,
	Gen: func(t *rapid.T) Case { return Case{Case: tk.Gen(t, nil, 25, false)} },
	Run: func(c Case, k *ev.Case) *ev.Failure {
		p, err := wtRealPair(c.Comp)
		if err != nil {
			return ev.Failf("harness", "loop-back WebTransport pair: %v", err)
		}
		defer p.Close()
		return tk.Run(c.Case, p, k, "webtransport-real")
	}}

func TestQUICLoopback(t *testing.T)         { subQR.Check(t) }
func TestWebTransportLoopback(t *testing.T) { subWT.Check(t) }

// multi-megabyte messages (thorough: 8 MiB)
func TestBigMessages(t *testing.T) {
	if ev.ShardIndex() != 0 {
		t.Skip("shard 0")
	}
	size := 1 << 20
	if ev.Thorough() {
		size = 8 << 20
	}
	lv, w := 6, 15
	for _, comp := range []tk.Comp{{}, {Type: "per-message", Level: &lv, Win: &w}, {Type: "context-takeover", Level: &lv, Win: &w}} {
		c := Case{Case: tk.Case{Comp: comp, Writers: 1, Msgs: []tk.Msg{{Size: size, Kind: "random", Seed: 1}, {Size: size + 1, Kind: "periodic", Seed: 2}, {Size: 0}, {Size: size, Kind: "prev"}}}}
		subWS.One(t, c)
		subQF.One(t, c)
		subQR.One(t, c)
	}
}

// TestRegressTakeoverStoredBlock: regression of fixed finding C13-takeover-stored-block (incompressible messages under context
// takeover at level >= 2 arrived with the window contents in front), every level and a few windows.
func TestRegressTakeoverStoredBlock(t *testing.T) {
	if ev.ShardIndex() != 0 {
		t.Skip("shard 0")
	}
	for lv := 0; lv <= 9; lv++ {
		for _, w := range []int{0, 2, 8, 15} {
			lv, w := lv, w
			comp := tk.Comp{Type: "context-takeover", Level: &lv, Win: &w}
			c := tk.Case{Comp: comp, Writers: 1, Msgs: []tk.Msg{{Size: 300, Kind: "random", Seed: 1}, {Size: 300, Kind: "random", Seed: 2}, {Size: 70000, Kind: "random", Seed: 3},
				{Size: 40000, Kind: "periodic", Seed: 4}, {Size: 66000, Kind: "random-then-zero", Seed: 5}, {Size: 5, Kind: "random", Seed: 6}}}
			subWS.One(t, Case{Case: c})
		}
	}
}

func TestReplay(t *testing.T) { ev.ReplayTest(t, subWS, subQF, subQR, subWT) }

// FuzzWebSocketSeq: coverage-guided search over message CONTENT (the generated kinds above are a handful of shapes; the deflate
// dictionary/stored-block logic depends on the bytes). The input is cut into messages by a cut script, the cell of the compression
// grid is chosen by three bytes; the round-trip + independent-decoder oracle of tk.RunBodies judges it.
func FuzzWebSocketSeq(f *testing.F) {
	rnd := make([]byte, 700)
	x := uint32(12345)
	for i := range rnd {
		x ^= x << 13
		x ^= x >> 17
		x ^= x << 5
		rnd[i] = byte(x)
	}
	f.Add(uint8(2), uint8(4), uint8(2), []byte{30, 30, 200}, rnd)
	f.Add(uint8(2), uint8(9), uint8(15), []byte{0, 1, 255}, bytes.Repeat([]byte("abcabcabd"), 90))
	f.Add(uint8(1), uint8(1), uint8(0), []byte{7}, append(bytes.Repeat([]byte{0}, 300), rnd...))
	f.Add(uint8(0), uint8(0), uint8(0), []byte{}, []byte("x"))
	f.Fuzz(func(t *testing.T, ty, level, win uint8, cuts, data []byte) {
		types := []string{"", "per-message", "context-takeover", "unknown"}
		lv, w := int(level%11), int(win%34)
		comp := tk.Comp{Type: types[int(ty)%len(types)]}
		if lv < 10 {
			comp.Level = &lv
		}
		if w < 33 {
			comp.Win = &w
		}
		var bodies [][]byte
		rest := data
		for _, c := range cuts {
			n := int(c) * 3
			if n > len(rest) {
				n = len(rest)
			}
			bodies = append(bodies, rest[:n])
			rest = rest[n:]
		}
		bodies = append(bodies, rest)
		if len(bodies) > 24 {
			bodies = bodies[:24]
		}
		k := ev.Begin("websocket-fuzz")
		p := wsPair(comp)
		defer p.Close()
		if fl := tk.RunBodies(comp, bodies, p, k, "websocket"); fl != nil {
			ev.Report("websocket-fuzz", map[string]any{"comp": comp, "bodies_hex": hexAll(bodies)}, fl)
			t.Fatalf("%s: %s", fl.Clause, fl.Message)
		}
	})
}

func hexAll(bs [][]byte) []string {
	r := make([]string, len(bs))
	for i, b := range bs {
		r[i] = fmt.Sprintf("%x", b)
	}
	return r
}
