// Package c19: the multi-transport routes writes to the selected member, merges all reads, closes
// every member, sums the counters, and survives transport ids that are not members.
package c19

import (
	"context"
	"fmt"
	"sort"
	"sync"
	"sync/atomic"
	"testing"
	"time"

	"github.com/aptpod/iscp-go/transport"
	"github.com/aptpod/iscp-go/transport/multi"
	"pgregory.net/rapid"

	"verifharness/ev"
	"verifharness/sim"
)

func TestMain(m *testing.M) { ev.MainExit(m, "C19") }

type member struct {
	id       transport.TransportID
	n, idx   int
	mu       sync.Mutex
	cond     *sync.Cond
	inbound  [][]byte
	writes   []string
	closed   int
	tx, rx   uint64
	unrel    bool
	uw       []string
	closeErr bool
}

func newMember(id string, n, idx int, unrel bool) *member {
	m := &member{id: transport.TransportID(id), n: n, idx: idx, unrel: unrel}
	m.cond = sync.NewCond(&m.mu)
	return m
}

func (m *member) Read() ([]byte, error) {
	m.mu.Lock()
	defer m.mu.Unlock()
	for {
		if m.closed > 0 {
			return nil, transport.ErrAlreadyClosed
		}
		if len(m.inbound) > 0 {
			b := m.inbound[0]
			m.inbound = m.inbound[1:]
			m.rx += uint64(len(b))
			return b, nil
		}
		m.cond.Wait()
	}
}
func (m *member) Write(b []byte) error {
	m.mu.Lock()
	defer m.mu.Unlock()
	if m.closed > 0 {
		return transport.ErrAlreadyClosed
	}
	m.writes = append(m.writes, string(b))
	m.tx += uint64(len(b))
	return nil
}
func (m *member) Close() error { return m.CloseWithStatus(transport.CloseStatusNormal) }
func (m *member) CloseWithStatus(transport.CloseStatus) error {
	m.mu.Lock()
	m.closed++
	m.cond.Broadcast()
	ce := m.closeErr
	m.mu.Unlock()
	if ce {
		return fmt.Errorf("fake member %s: close reports an error", m.id)
	}
	return nil
}
func (m *member) RxBytesCounterValue() uint64 { m.mu.Lock(); defer m.mu.Unlock(); return m.rx }
func (m *member) TxBytesCounterValue() uint64 { m.mu.Lock(); defer m.mu.Unlock(); return m.tx }
func (m *member) AsUnreliable() (transport.UnreliableTransport, bool) {
	if !m.unrel {
		return nil, false
	}
	return &unrel{m}, true
}
func (m *member) NegotiationParams() transport.NegotiationParams {
	return transport.NegotiationParams{Encoding: "proto", TransportID: m.id, TransportGroupID: "group", TransportGroupTotalCount: m.n, TransportGroupIndex: m.idx}
}
func (m *member) Name() transport.Name { return transport.Name("member-" + string(m.id)) }
func (m *member) deliver(b []byte) {
	m.mu.Lock()
	m.inbound = append(m.inbound, b)
	m.cond.Broadcast()
	m.mu.Unlock()
}

type unrel struct{ m *member }

func (u *unrel) Read() ([]byte, error) { select {} }
func (u *unrel) Write(b []byte) error {
	u.m.mu.Lock()
	u.m.uw = append(u.m.uw, string(b))
	u.m.mu.Unlock()
	return nil
}
func (u *unrel) Close() error                { return nil }
func (u *unrel) RxBytesCounterValue() uint64 { return 0 }
func (u *unrel) TxBytesCounterValue() uint64 { return 0 }
func (u *unrel) IsUnreliable()               {}

// Op is one step of a history.
type Op struct {
	Kind   string `json:"op"`     // emit | write | deliver | read | unreliable | params | counters
	ID     string `json:"id"`     // emit: a member id, "foreign-x" or ""
	Member int    `json:"member"` // deliver
}

type Case struct {
	Members   int    `json:"members"`
	Scheduler string `json:"scheduler"` // event | scripted-poller | round-robin | last-used | nic
	Initial   string `json:"initial"`   // member id, "foreign" or ""
	Ops       []Op   `json:"ops"`
	// CloseErrors: bit i set = closing member i tears it down but reports an error; Close must still reach every member
	CloseErrors int `json:"close_errors,omitempty"`
}

type scripted struct{ cur atomic.Value }

func (s *scripted) Get() transport.TransportID { return s.cur.Load().(transport.TransportID) }

type nicListener struct{ ch chan string }

func (n *nicListener) Subscribe() <-chan string { return n.ch }

func guard(name string, f func()) (fail *ev.Failure) {
	done := make(chan struct{})
	go func() {
		defer close(done)
		defer func() {
			if r := recover(); r != nil {
				fail = ev.Failf("C19.4 panic", "%s panics: %v", name, r)
			}
		}()
		f()
	}()
	select {
	case <-done:
	case <-time.After(5 * time.Second):
		return ev.Failf("C19.4 hang", "%s did not return within 5 s", name)
	}
	return fail
}

func isMember(id string, n int) bool {
	for i := 0; i < n; i++ {
		if id == fmt.Sprintf("m%d", i) {
			return true
		}
	}
	return false
}

func run(c Case, k *ev.Case) *ev.Failure {
	ev.Journal("multi", c)
	members := make([]*member, c.Members)
	tm := multi.TransportMap{}
	for i := range members {
		members[i] = newMember(fmt.Sprintf("m%d", i), c.Members, i, i%2 == 0)
		members[i].closeErr = c.CloseErrors&(1<<i) != 0
		tm[members[i].id] = members[i]
	}
	conf := multi.TransportConfig{TransportMap: tm, InitialTransportID: transport.TransportID(c.Initial)}
	evCh := make(chan transport.TransportID)
	sp := &scripted{}
	sp.cur.Store(transport.TransportID(c.Initial))
	nl := &nicListener{ch: make(chan string)}
	predictable := false
	switch c.Scheduler {
	case "event":
		conf.SchedulerMode = multi.SchedulerModeEvent
		conf.EventScheduler = &multi.EventScheduler{Subscriber: multi.EventSchedulerFunc(func(ctx context.Context) <-chan transport.TransportID { return evCh })}
		predictable = true
	case "nic":
		conf.SchedulerMode = multi.SchedulerModeEvent
		nm := map[string]transport.TransportID{}
		for i := range members {
			nm[fmt.Sprintf("eth%d", i)] = members[i].id
		}
		conf.EventScheduler = &multi.EventScheduler{Subscriber: &multi.NICEventSubscriber{NICManager: nl, NICTransportID: nm}}
		predictable = true
	case "scripted-poller":
		conf.SchedulerMode = multi.SchedulerModePolling
		conf.PollingScheduler = &multi.PollingScheduler{Poller: sp, Interval: 300 * time.Microsecond}
		predictable = true
	case "round-robin":
		conf.SchedulerMode = multi.SchedulerModePolling
		ids := make([]transport.TransportID, len(members))
		for i := range members {
			ids[i] = members[i].id
		}
		conf.PollingScheduler = &multi.PollingScheduler{Poller: multi.NewRoundRobinPoller(ids), Interval: 300 * time.Microsecond}
	case "last-used":
		conf.SchedulerMode = multi.SchedulerModePolling
		conf.PollingScheduler = &multi.PollingScheduler{Poller: multi.NewLastReadPoller(), Interval: 300 * time.Microsecond}
	}
	var tr *multi.Transport
	var err error
	if f := guard("NewTransport", func() { tr, err = multi.NewTransport(conf) }); f != nil {
		return f
	}
	k.Label("scheduler=" + c.Scheduler)
	initialMember := isMember(c.Initial, c.Members)
	if !initialMember {
		k.Label("initial-not-a-member")
	}
	if err != nil {
		if initialMember {
			return ev.Failf("harness", "NewTransport rejected a valid configuration: %v", err)
		}
		k.Label("rejected-by-NewTransport")
		k.NonTrivial(ev.JSON(c))
		return nil // rejected: fine
	}
	defer tr.Close()
	selected := c.Initial // model: "" / foreign = no valid selection yet
	if !initialMember {
		selected = ""
	}
	wn := 0
	var delivered [][2]string // (member, msg)
	var got []string
	expectWrites := map[string][]string{}
	changes, foreign := 0, 0
	lastWriteSel := ""
	waitSel := func(id string) *ev.Failure {
		deadline := time.Now().Add(3 * time.Second)
		for time.Now().Before(deadline) {
			var cur transport.TransportID
			if f := guard("NegotiationParams", func() { cur = tr.NegotiationParams().TransportID }); f != nil {
				return f
			}
			if string(cur) == id {
				return nil
			}
			time.Sleep(100 * time.Microsecond)
		}
		return ev.Failf("C19.1 selection-not-applied", "scheduler selected member %s but after 3 s NegotiationParams still reports another member", id)
	}
	for oi, op := range c.Ops {
		switch op.Kind {
		case "emit":
			if !predictable {
				continue
			}
			member := isMember(op.ID, c.Members)
			switch c.Scheduler {
			case "event":
				select {
				case evCh <- transport.TransportID(op.ID):
				case <-time.After(3 * time.Second):
					return ev.Failf("C19.4 hang", "op %d: the event scheduler does not take events any more", oi)
				}
			case "nic":
				name := "wlan-unknown"
				if member {
					name = "eth" + op.ID[1:]
				}
				select {
				case nl.ch <- name:
				case <-time.After(3 * time.Second):
					return ev.Failf("C19.4 hang", "op %d: the NIC subscriber does not take events any more", oi)
				}
			case "scripted-poller":
				sp.cur.Store(transport.TransportID(op.ID))
			}
			if member {
				if f := waitSel(op.ID); f != nil {
					return f
				}
				if selected != op.ID {
					changes++
				}
				selected = op.ID
				if c.Scheduler == "scripted-poller" {
					// keep polling the same valid id
				}
			} else {
				foreign++
				time.Sleep(3 * time.Millisecond) // the selection is applied asynchronously; afterwards only survival is required
				if c.Scheduler == "scripted-poller" && selected != "" {
					sp.cur.Store(transport.TransportID(selected)) // stop feeding the foreign id, the previous member stays selected
					time.Sleep(time.Millisecond)
				}
			}
		case "write":
			wn++
			msg := fmt.Sprintf("w-%03d", wn)
			var werr error
			if f := guard(fmt.Sprintf("Write (op %d, model selection %q)", oi, selected), func() { werr = tr.Write([]byte(msg)) }); f != nil {
				return f
			}
			if werr != nil {
				return ev.Failf("C19.1 write-error", "op %d: Write returned %v with all members healthy", oi, werr)
			}
			if predictable && selected != "" {
				expectWrites[selected] = append(expectWrites[selected], msg)
				if lastWriteSel != "" && lastWriteSel != selected {
					k.Label("selection-changed-between-writes")
				}
				lastWriteSel = selected
			}
		case "deliver":
			m := members[op.Member%len(members)]
			msg := fmt.Sprintf("in-%s-%03d", m.id, len(delivered))
			delivered = append(delivered, [2]string{string(m.id), msg})
			m.deliver([]byte(msg))
		case "read":
			if len(got) >= len(delivered) {
				continue // nothing to read: would block
			}
			var b []byte
			var rerr error
			if f := guard("Read", func() { b, rerr = tr.Read() }); f != nil {
				return f
			}
			if rerr != nil {
				return ev.Failf("C19.2 read-error", "op %d: Read returned %v although a member delivered a message", oi, rerr)
			}
			got = append(got, string(b))
		case "unreliable":
			if f := guard("AsUnreliable", func() {
				u, ok := tr.AsUnreliable()
				if predictable && selected != "" {
					want := members[idxOf(selected)].unrel
					if ok != want {
						panic(fmt.Sprintf("AsUnreliable ok=%v, the selected member %s says %v", ok, selected, want))
					}
				}
				_ = u
			}); f != nil {
				return f
			}
		case "params":
			var p transport.NegotiationParams
			if f := guard("NegotiationParams", func() { p = tr.NegotiationParams() }); f != nil {
				return f
			}
			if predictable && selected != "" && string(p.TransportID) != selected {
				return ev.Failf("C19.1 params", "op %d: NegotiationParams reports member %q, the scheduler selected %q", oi, p.TransportID, selected)
			}
		case "counters":
			var tx, rx, wtx, wrx uint64
			for _, m := range members {
				wtx += m.TxBytesCounterValue()
				wrx += m.RxBytesCounterValue()
			}
			tx, rx = tr.TxBytesCounterValue(), tr.RxBytesCounterValue()
			// members keep reading concurrently, so rx may grow between the two readings; tx is quiescent here
			if tx != wtx {
				return ev.Failf("C19.3 counters", "op %d: TxBytesCounterValue %d, members sum to %d", oi, tx, wtx)
			}
			if rx < wrx {
				return ev.Failf("C19.3 counters", "op %d: RxBytesCounterValue %d is below the members' earlier sum %d", oi, rx, wrx)
			}
		}
	}
	// drain remaining reads
	for len(got) < len(delivered) {
		var b []byte
		var rerr error
		if f := guard("Read", func() { b, rerr = tr.Read() }); f != nil {
			return ev.Failf("C19.2 read-lost", "%d messages were delivered by members, only %d could be read: %s", len(delivered), len(got), f.Message)
		}
		if rerr != nil {
			return ev.Failf("C19.2 read-error", "Read returned %v with %d of %d delivered messages read", rerr, len(got), len(delivered))
		}
		got = append(got, string(b))
	}
	// merged reads: multiset equal, per-member order kept
	want := make([]string, len(delivered))
	for i, d := range delivered {
		want[i] = d[1]
	}
	gs, ws := append([]string(nil), got...), append([]string(nil), want...)
	sort.Strings(gs)
	sort.Strings(ws)
	if fmt.Sprint(gs) != fmt.Sprint(ws) {
		return ev.Failf("C19.2 merged-reads", "Read returned %v, members delivered %v", got, want)
	}
	lastIdx := map[string]int{}
	for _, g := range got {
		var mid string
		var n int
		fmt.Sscanf(g, "in-%2s-%d", &mid, &n)
		if p, ok := lastIdx[mid]; ok && n < p {
			return ev.Failf("C19.2 per-member-order", "messages of member %s were returned out of order: %v", mid, got)
		}
		lastIdx[mid] = n
	}
	// writes: each in exactly one member, the selected one where predictable
	all := map[string]int{}
	for _, m := range members {
		m.mu.Lock()
		for _, w := range m.writes {
			all[w]++
		}
		if predictable {
			if fmt.Sprint(m.writes) != fmt.Sprint(expectWrites[string(m.id)]) && selectedAlways(c, expectWrites, wn) {
				ws := append([]string(nil), m.writes...)
				m.mu.Unlock()
				return ev.Failf("C19.1 routing", "member %s received %v, the scheduler's selections call for %v", m.id, ws, expectWrites[string(m.id)])
			}
		}
		m.mu.Unlock()
	}
	for i := 1; i <= wn; i++ {
		msg := fmt.Sprintf("w-%03d", i)
		if all[msg] != 1 {
			return ev.Failf("C19.1 exactly-one-member", "write %s landed in %d members", msg, all[msg])
		}
	}
	// Close closes every member
	var cerr error
	if f := guard("Close", func() { cerr = tr.Close() }); f != nil {
		return f
	}
	_ = cerr
	for _, m := range members {
		m.mu.Lock()
		n := m.closed
		m.mu.Unlock()
		if n < 1 {
			return ev.Failf("C19.3 close-fan-out", "Close did not close member %s", m.id)
		}
	}
	var rerr error
	if f := guard("Read after Close", func() { _, rerr = tr.Read() }); f != nil {
		return f
	}
	if rerr == nil {
		return ev.Failf("C19.3 read-after-close", "Read after Close returned nil")
	}
	if foreign > 0 {
		k.Label("foreign-or-empty-id")
	}
	if (c.Members >= 2 && changes > 0 && wn >= 2) || foreign > 0 || !initialMember {
		k.NonTrivial(ev.JSON(c))
	}
	k.Sample(func() any { return c })
	return nil
}

// selectedAlways: the routing prediction covers every write only if a member was selected at every write.
func selectedAlways(c Case, exp map[string][]string, wn int) bool {
	n := 0
	for _, v := range exp {
		n += len(v)
	}
	return n == wn
}

func idxOf(id string) int {
	var i int
	fmt.Sscanf(id, "m%d", &i)
	return i
}

func gen(t *rapid.T) Case {
	c := Case{Members: rapid.IntRange(1, 5).Draw(t, "members"),
		Scheduler: rapid.SampledFrom([]string{"event", "event", "scripted-poller", "nic", "round-robin", "last-used"}).Draw(t, "scheduler")}
	genID := func(label string) string {
		switch rapid.IntRange(0, 7).Draw(t, label+"kind") {
		case 0:
			return ""
		case 1:
			return rapid.SampledFrom([]string{"foreign-x", "m9", "M0", " m0"}).Draw(t, label+"foreign")
		default:
			return fmt.Sprintf("m%d", rapid.IntRange(0, c.Members-1).Draw(t, label))
		}
	}
	c.Initial = genID("initial")
	if rapid.IntRange(0, 2).Draw(t, "closeerrs") == 0 {
		c.CloseErrors = rapid.IntRange(1, 1<<c.Members-1).Draw(t, "closeerrmask")
	}
	n := rapid.IntRange(1, 25).Draw(t, "nops")
	for i := 0; i < n; i++ {
		switch rapid.IntRange(0, 9).Draw(t, "opkind") {
		case 0, 1, 2:
			c.Ops = append(c.Ops, Op{Kind: "emit", ID: genID("emit")})
		case 3, 4, 5:
			c.Ops = append(c.Ops, Op{Kind: "write"})
		case 6:
			c.Ops = append(c.Ops, Op{Kind: "deliver", Member: rapid.IntRange(0, c.Members-1).Draw(t, "member")})
		case 7:
			c.Ops = append(c.Ops, Op{Kind: "read"})
		case 8:
			c.Ops = append(c.Ops, Op{Kind: rapid.SampledFrom([]string{"unreliable", "params"}).Draw(t, "probe")})
		default:
			c.Ops = append(c.Ops, Op{Kind: "counters"})
		}
	}
	return c
}

var sub = ev.Sub[Case]{Name: "multi", Repeats: 10, Q: 250, T: 6000, Gen: gen, Run: run}

func TestProp(t *testing.T)   { sub.Check(t) }
func TestReplay(t *testing.T) { ev.ReplayTest(t, sub) }

var _ = sim.Call

// TestRegress: repaired defects (known_findings.json, status fixed).
func TestRegress(t *testing.T) {
	if ev.ShardIndex() != 0 {
		t.Skip("shard 0")
	}
	for _, init := range []string{"", "foreign-x"} {
		for _, sch := range []string{"event", "scripted-poller", "last-used"} {
			sub.One(t, Case{Members: 2, Scheduler: sch, Initial: init, Ops: []Op{{Kind: "write"}, {Kind: "params"}, {Kind: "unreliable"}}})
		}
	}
	sub.One(t, Case{Members: 3, Scheduler: "event", Initial: "m1", Ops: []Op{{Kind: "write"}, {Kind: "emit", ID: ""}, {Kind: "write"}, {Kind: "emit", ID: "m9"}, {Kind: "write"}, {Kind: "params"}, {Kind: "unreliable"}}})
	sub.One(t, Case{Members: 3, Scheduler: "last-used", Initial: "m1", Ops: []Op{{Kind: "write"}, {Kind: "write"}, {Kind: "params"}, {Kind: "deliver", Member: 2}, {Kind: "read"}, {Kind: "write"}}})
}
