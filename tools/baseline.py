#!/usr/bin/env python3
"""Run the repository's own test suite (guard OFF) and compare with /root/.vp/BASELINE.json.
usage: tools/baseline.py [repo_dir] [runs]
exit 0 iff every stable_pass test passed in at least one of the runs (flaky list is ignored)."""
import json, os, subprocess, sys
repo = sys.argv[1] if len(sys.argv) > 1 else "/repo"
runs = int(sys.argv[2]) if len(sys.argv) > 2 else 1
base = json.load(open("/root/.vp/BASELINE.json"))
stable = set(base["stable_pass"])
env = dict(os.environ, GOFLAGS="-mod=mod", GOPROXY="off")
env.pop("GOTOOLCHAIN", None)
passed_any = set(); failed_last = set()
for r in range(runs):
    p = subprocess.run(["go", "test", "-json", "-vet=off", "-count=1", "-timeout", os.environ.get("BASELINE_TIMEOUT", "25m"), "./..."],
                       cwd=repo, env=env, stdout=subprocess.PIPE, stderr=subprocess.STDOUT, text=True)
    failed_last = set()
    for line in p.stdout.splitlines():
        try: ev = json.loads(line)
        except Exception: continue
        if ev.get("Test") and ev.get("Action") in ("pass", "fail"):
            k = ev["Package"] + "::" + ev["Test"]
            (passed_any if ev["Action"] == "pass" else failed_last).add(k)
    if stable <= passed_any: break
missing = sorted(stable - passed_any)
print("stable_pass=%d passed=%d missing=%d" % (len(stable), len(stable & passed_any), len(missing)))
for m in missing[:50]: print("MISSING", m)
sys.exit(1 if missing else 0)
