package c07

import (
	"bytes"
	"context"
	"errors"
	"fmt"
	"strings"
	"sync"
	"testing"
	"time"

	ierrors "github.com/aptpod/iscp-go/errors"
	"github.com/aptpod/iscp-go/iscp"
	"github.com/aptpod/iscp-go/message"
	"github.com/google/uuid"
	"pgregory.net/rapid"

	"verifharness/ev"
	"verifharness/sim"
	"verifharness/upk"
)

// ConnCase: several streams of both directions on one connection; victims go through lifecycle operations while
// bystanders carry traffic; optionally one link failure so that reliable and non-reliable upstreams resume side by side.
type ConnCase struct {
	Codec      string     `json:"codec"`
	UpQoS      []int      `json:"up_qos"`   // bystander upstreams
	DownQoS    []int      `json:"down_qos"` // bystander downstreams
	Writes     int        `json:"writes"`   // writes per bystander upstream (each followed by a flush)
	Chunks     int        `json:"chunks"`   // chunks the broker sends to every bystander downstream
	Victims    []string   `json:"victims"`  // lifecycle ops executed meanwhile: open-close-up | open-close-down | failed-open-up | failed-open-down | metadata
	Outage     bool       `json:"outage"`
	Withhold   []int      `json:"withhold"` // per bystander upstream: number of trailing chunks whose ack is withheld until after the outage (0 = none)
	Interleave []int      `json:"interleave"`
	Policy     upk.Policy `json:"policy"`
	// ReuseAliases: the broker hands a closed upstream's stream alias out again. LateUps: further bystander upstreams (QoS list)
	// opened when the first ones are done; before each, a pilot stream is opened, acknowledged once and closed - so with alias
	// reuse the late stream takes over the alias the pilot's acks were just routed for (seeded change C07/m3)
	// DefaultPolicy: the bystander upstreams are opened WITHOUT a flush-policy option (library default: 100 ms interval or
	// 10 000 bytes) and never call Flush: their data flows on the default interval whatever other streams (victims, opened and
	// closed with the same default) do (seeded change C07/m6: the default policy object shared one ticker between streams)
	DefaultPolicy bool  `json:"default_policy,omitempty"`
	ReuseAliases  bool  `json:"reuse_aliases,omitempty"`
	LateUps       []int `json:"late_ups,omitempty"`
}

const perCall = 8 * time.Second

// library defaults of an upstream opened without options (iscp/upstream.go, upstream_options.go)
const (
	defaultAckInterval = 100 * time.Millisecond
	defaultExpiry      = 10 * time.Second
)

type upRec struct {
	name     string
	up       *iscp.Upstream
	hooks    *upk.HookRec
	accepted []sim.Point
	closedEv bool
}

func runConn(c ConnCase, k *ev.Case) *ev.Failure {
	w := sim.NewWorld()
	defer w.Dispose()
	w.DialDelay = 5 * time.Millisecond
	b := w.Broker
	b.ReuseUpAliases = c.ReuseAliases
	var mu sync.Mutex
	withheldLeft := map[uuid.UUID]map[uint32]bool{} // stream -> seq withheld (acked later)
	type heldAck struct {
		id  uuid.UUID
		seq uint32
	}
	var held []heldAck
	withholdFrom := map[uuid.UUID]uint32{} // stream id -> first seq whose ack is withheld
	outageDone := false
	b.OnChunk = func(inc *sim.Inc, up *sim.UpState, e *sim.Entry) {
		ch := e.Msg.(*message.UpstreamChunk)
		seq := ch.StreamChunk.SequenceNumber
		mu.Lock()
		from, ok := withholdFrom[up.ID]
		hold := ok && seq >= from && !outageDone && inc.Index == 0
		if hold {
			held = append(held, heldAck{up.ID, seq})
			if withheldLeft[up.ID] == nil {
				withheldLeft[up.ID] = map[uint32]bool{}
			}
			withheldLeft[up.ID][seq] = true
		}
		mu.Unlock()
		if hold {
			return
		}
		// the result string carries the stream's identity: a result delivered to another stream's hook is visible
		inc.Send(&message.UpstreamChunkAck{StreamIDAlias: ch.StreamIDAlias, Results: []*message.UpstreamChunkResult{{SequenceNumber: seq,
			ResultCode: message.ResultCodeSucceeded, ResultString: fmt.Sprintf("ack-for-%x-seq-%d", up.ID[12:], seq)}}, DataIDAliases: map[uint32]*message.DataID{}})
	}
	// opens of sessions named fail-* are refused
	b.Hook = func(inc *sim.Inc, e *sim.Entry) sim.Verdict {
		switch m := e.Msg.(type) {
		case *message.UpstreamOpenRequest:
			if len(m.SessionID) >= 5 && m.SessionID[:5] == "fail-" {
				inc.Send(&message.UpstreamOpenResponse{RequestID: m.RequestID, ResultCode: message.ResultCodeTooManyStreams, ResultString: "refused", DataIDAliases: map[uint32]*message.DataID{}})
				return sim.Handled
			}
		case *message.DownstreamCloseRequest:
			if st := b.Downstream(m.StreamID); st != nil && st.OpenReq != nil && len(st.OpenReq.DownstreamFilters) > 0 && st.OpenReq.DownstreamFilters[0].SourceNodeID == "dead-node" {
				return sim.Handled // never answered
			}
		case *message.DownstreamOpenRequest:
			if len(m.DownstreamFilters) > 0 && m.DownstreamFilters[0].SourceNodeID == "fail-node" {
				inc.Send(&message.DownstreamOpenResponse{RequestID: m.RequestID, ResultCode: message.ResultCodeTooManyStreams, ResultString: "refused"})
				return sim.Handled
			}
		}
		return sim.Default
	}
	enc := iscp.EncodingNameProtobuf
	if c.Codec == "json" {
		enc = iscp.EncodingNameJSON
	}
	conn, err := w.Connect(iscp.WithConnEncoding(enc), iscp.WithConnPingInterval(15*time.Millisecond), iscp.WithConnPingTimeout(1500*time.Millisecond))
	if err != nil {
		return ev.Failf("harness", "connect: %v", err)
	}
	defer sim.Call(perCall, func() { conn.Close(context.Background()) })
	ctx, cancel := sim.Ctx(30 * time.Second)
	defer cancel()
	// bystander upstreams
	ups := make([]*upRec, len(c.UpQoS))
	for i, q := range c.UpQoS {
		r := &upRec{name: fmt.Sprintf("u%d", i), hooks: &upk.HookRec{}}
		uopts := []iscp.UpstreamOption{iscp.WithUpstreamQoS(message.QoS(q)), iscp.WithUpstreamReceiveAckHooker(r.hooks),
			iscp.WithUpstreamSendDataPointsHooker(r.hooks), iscp.WithUpstreamClosedEventHandler(r.hooks), iscp.WithUpstreamCloseTimeout(2 * time.Second)}
		if !c.DefaultPolicy {
			uopts = append(uopts, c.Policy.Option())
		}
		r.up, err = conn.OpenUpstream(ctx, "by-"+r.name, uopts...)
		if err != nil {
			return ev.Failf("harness", "open %s: %v", r.name, err)
		}
		ups[i] = r
		if i < len(c.Withhold) && c.Withhold[i] > 0 && c.Outage {
			from := c.Writes - c.Withhold[i] + 1
			if from < 1 {
				from = 1
			}
			mu.Lock()
			withholdFrom[r.up.ID] = uint32(from)
			mu.Unlock()
		}
	}
	// bystander downstreams
	type downRec struct {
		name  string
		d     *iscp.Downstream
		alias uint32
		got   []*iscp.DownstreamChunk
		errs  []string
	}
	downs := make([]*downRec, len(c.DownQoS))
	for i, q := range c.DownQoS {
		r := &downRec{name: fmt.Sprintf("d%d", i)}
		r.d, err = conn.OpenDownstream(ctx, []*message.DownstreamFilter{message.NewDownstreamFilterAllFor("src-" + r.name)}, iscp.WithDownstreamQoS(message.QoS(q)),
			iscp.WithDownstreamAckFlushInterval(3*time.Millisecond))
		if err != nil {
			return ev.Failf("harness", "open %s: %v", r.name, err)
		}
		r.alias = b.Downstream(r.d.ID).Alias
		downs[i] = r
	}
	var wg sync.WaitGroup
	// writers
	for i, r := range ups {
		wg.Add(1)
		go func(i int, r *upRec) {
			defer wg.Done()
			for n := 1; n <= c.Writes; n++ {
				p := &message.DataPoint{ElapsedTime: upk.Elapsed(i, n), Payload: []byte(fmt.Sprintf("%s-point-%03d", r.name, n))}
				id := &message.DataID{Name: "id-" + r.name, Type: "t"}
				wctx, wc := sim.Ctx(perCall)
				err := r.up.WriteDataPoints(wctx, id, p)
				if err == nil && !c.DefaultPolicy {
					err = r.up.Flush(wctx)
				}
				wc()
				if err != nil {
					if errors.Is(err, ierrors.ErrStreamClosed) {
						r.closedEv = true
					}
					return
				}
				r.accepted = append(r.accepted, sim.Point{Name: id.Name, Type: id.Type, Elapsed: p.ElapsedTime, Payload: p.Payload})
				if len(c.Interleave) > 0 {
					time.Sleep(time.Duration(c.Interleave[(i+n)%len(c.Interleave)]) * time.Microsecond)
				}
			}
		}(i, r)
	}
	// readers
	rctx, rcancel := context.WithCancel(context.Background())
	defer rcancel()
	var rwg sync.WaitGroup
	for _, r := range downs {
		rwg.Add(1)
		go func(r *downRec) {
			defer rwg.Done()
			for {
				ch, err := r.d.ReadDataPoints(rctx)
				if err != nil {
					if rctx.Err() != nil || errors.Is(err, ierrors.ErrStreamClosed) {
						return
					}
					r.errs = append(r.errs, err.Error())
					continue
				}
				r.got = append(r.got, ch)
			}
		}(r)
	}
	// the broker feeds every downstream with chunks that carry the downstream's own marker, in random interleaving
	sentTo := map[string]int{}
	feed := func(n int) {
		for j := 0; j < n; j++ {
			for i, r := range downs {
				inc := b.CurrentInc()
				st := b.Downstream(r.d.ID)
				if st == nil || st.Inc != inc.Index || inc.Link.Dead() {
					continue // not (yet) attached to the current connection
				}
				sentTo[r.name]++
				seq := uint32(sentTo[r.name])
				inc.Send(&message.DownstreamChunk{StreamIDAlias: r.alias, UpstreamOrAlias: &message.UpstreamInfo{SessionID: "for-" + r.name, SourceNodeID: "src-" + r.name, StreamID: uuid.UUID{0x99, byte(i)}},
					StreamChunk: &message.StreamChunk{SequenceNumber: seq, DataPointGroups: []*message.DataPointGroup{{DataIDOrAlias: &message.DataID{Name: "for-" + r.name, Type: "t"},
						DataPoints: []*message.DataPoint{{ElapsedTime: time.Duration(seq), Payload: []byte(fmt.Sprintf("to-%s-%03d", r.name, seq))}}}}}})
				if len(c.Interleave) > 0 {
					time.Sleep(time.Duration(c.Interleave[(i+j)%len(c.Interleave)]) * time.Microsecond)
				}
			}
		}
	}
	// victims: lifecycle operations on other streams of the same connection
	wg.Add(1)
	go func() {
		defer wg.Done()
		for vi, v := range c.Victims {
			vctx, vc := sim.Ctx(3 * time.Second)
			switch v {
			case "open-close-up":
				// the victim configures its own ack interval, flush policy and expiry: no other stream's configuration may change with it
				if u, err := conn.OpenUpstream(vctx, fmt.Sprintf("victim-%d", vi), iscp.WithUpstreamQoS(message.QoS(vi%3)), iscp.WithUpstreamCloseTimeout(300*time.Millisecond),
					iscp.WithUpstreamAckInterval(time.Duration(700+vi)*time.Millisecond), iscp.WithUpstreamExpiryInterval(time.Duration(70+vi)*time.Second)); err == nil {
					u.WriteDataPoints(vctx, &message.DataID{Name: "victim", Type: "t"}, &message.DataPoint{Payload: []byte("victim")})
					u.Close(vctx)
				}
			case "open-close-down":
				if d, err := conn.OpenDownstream(vctx, []*message.DownstreamFilter{message.NewDownstreamFilterAllFor("victim-node")}, iscp.WithDownstreamQoS(message.QoS(vi%3))); err == nil {
					d.Close(vctx)
				}
			case "failed-open-up":
				conn.OpenUpstream(vctx, fmt.Sprintf("fail-%d", vi))
			case "failed-open-down":
				conn.OpenDownstream(vctx, []*message.DownstreamFilter{message.NewDownstreamFilterAllFor("fail-node")})
			case "metadata":
				conn.SendMetadata(vctx, &message.BaseTime{Name: "victim", BaseTime: time.Unix(1, 0)})
			case "stray-metadata":
				// metadata addressed to a bystander's alias from a source node nobody subscribed to, then an ordinary lifecycle
				// operation of another stream (which needs the routing tables): neither stream may notice (seeded change C07/m5)
				inc := b.CurrentInc()
				for _, r := range downs {
					if st := b.Downstream(r.d.ID); st != nil && st.Inc == inc.Index && !inc.Link.Dead() {
						inc.Send(&message.DownstreamMetadata{RequestID: message.RequestID(880001 + 2*vi), StreamIDAlias: st.Alias, SourceNodeID: "node-nobody-asked-for",
							Metadata: &message.BaseTime{Name: "stray", BaseTime: time.Unix(1, 0)}})
					}
				}
				if d, err := conn.OpenDownstream(vctx, []*message.DownstreamFilter{message.NewDownstreamFilterAllFor("victim-node")}, iscp.WithDownstreamQoS(message.QoSReliable)); err == nil {
					d.Close(vctx)
				}
			case "dead-down-flood":
				// a downstream whose close request the broker never answers: closed at the client (Close timed out), still served by
				// the broker, which goes on sending it far more chunks than any per-stream queue of the client holds. The streams
				// next to it must keep receiving theirs (seeded change C07/m2: the connection's dispatcher waited on that queue).
				if d, err := conn.OpenDownstream(vctx, []*message.DownstreamFilter{message.NewDownstreamFilterAllFor("dead-node")}, iscp.WithDownstreamQoS(message.QoSReliable)); err == nil {
					st := b.Downstream(d.ID)
					cctx, cc := sim.Ctx(60 * time.Millisecond)
					d.Close(cctx)
					cc()
					if inc := b.CurrentInc(); st != nil && st.Inc == inc.Index && !inc.Link.Dead() {
						for j := 1; j <= 1300; j++ {
							inc.Send(&message.DownstreamChunk{StreamIDAlias: st.Alias, UpstreamOrAlias: &message.UpstreamInfo{SessionID: "for-dead", SourceNodeID: "dead-node", StreamID: uuid.UUID{0x98}},
								StreamChunk: &message.StreamChunk{SequenceNumber: uint32(j), DataPointGroups: []*message.DataPointGroup{{DataIDOrAlias: &message.DataID{Name: "for-dead", Type: "t"},
									DataPoints: []*message.DataPoint{{ElapsedTime: time.Duration(j), Payload: []byte("to-nobody")}}}}}})
						}
					}
				}
			}
			vc()
		}
	}()
	feed(c.Chunks / 2)
	wdone := make(chan struct{})
	go func() { wg.Wait(); close(wdone) }()
	if c.Outage {
		// wait until the writers have produced what they can with acks withheld, then cut
		select {
		case <-wdone:
		case <-time.After(300 * time.Millisecond):
		}
		w.CurrentLink().DrainThenSever(20 * time.Millisecond)
		// recovery: every bystander attached to the new connection
		dl := time.Now().Add(4 * time.Second)
		for time.Now().Before(dl) {
			inc := b.CurrentInc()
			okAll := inc.Index > 0 && inc.Connect != nil
			for _, r := range ups {
				if st := b.Upstream(r.up.ID); st == nil || st.Inc != inc.Index {
					okAll = false
				}
			}
			for _, r := range downs {
				if st := b.Downstream(r.d.ID); st == nil || st.Inc != inc.Index {
					okAll = false
				}
			}
			if okAll {
				break
			}
			time.Sleep(time.Millisecond)
		}
		mu.Lock()
		outageDone = true
		mu.Unlock()
	}
	select {
	case <-wdone:
	case <-time.After(20 * time.Second):
		// every call in there has a deadline of at most 8 s: something is blocked beyond its context - a lifecycle operation of
		// one stream (or a stray message for it) has wedged the others
		return ev.Failf("C07.2 streams-blocked", "20 s after the start, bystander writers or lifecycle operations of other streams (victims %v) are still blocked although every call had a deadline of at most 8 s", c.Victims)
	}
	// default flush policy: what the bystanders accepted is on its way within the default interval (100 ms) plus slack, without any
	// Flush or Close of theirs
	if c.DefaultPolicy && !c.Outage {
		dl := time.Now().Add(100*time.Millisecond + 2500*time.Millisecond)
		for {
			missing := ""
			for _, r := range ups {
				st := b.Upstream(r.up.ID)
				n := 0
				if st != nil {
					b.Lock()
					for _, es := range st.Chunks {
						if len(es) > 0 {
							n += len(es[0].Points)
						}
					}
					b.Unlock()
				}
				if n < len(r.accepted) {
					missing = fmt.Sprintf("%s: %d of %d accepted points transmitted", r.name, n, len(r.accepted))
				}
			}
			if missing == "" {
				break
			}
			if time.Now().After(dl) {
				return ev.Failf("C07.2 bystander-held", "default flush policy (100 ms interval): 2.6 s after its last write, with no Flush or Close of its own, %s - while other streams were opened and closed (victims %v)", missing, c.Victims)
			}
			time.Sleep(2 * time.Millisecond)
		}
		k.Label("default-flush-policy")
	}
	// late bystanders, each behind a pilot stream that was acknowledged and closed
	qosOf := append(append([]int(nil), c.UpQoS...), c.LateUps...)
	for li, q := range c.LateUps {
		ph := &upk.HookRec{}
		if pilot, err := conn.OpenUpstream(ctx, fmt.Sprintf("pilot-%d", li), iscp.WithUpstreamQoS(message.QoSReliable), iscp.WithUpstreamFlushPolicyNone(), iscp.WithUpstreamReceiveAckHooker(ph),
			iscp.WithUpstreamCloseTimeout(500*time.Millisecond)); err == nil {
			pctx, pc := sim.Ctx(2 * time.Second)
			pilot.WriteDataPoints(pctx, &message.DataID{Name: "pilot", Type: "t"}, &message.DataPoint{Payload: []byte("pilot")})
			pilot.Flush(pctx)
			for dl := time.Now().Add(time.Second); time.Now().Before(dl); time.Sleep(200 * time.Microsecond) {
				if _, after, _ := ph.Snapshot(); len(after) > 0 {
					break
				}
			}
			pilot.Close(pctx)
			pc()
		}
		r := &upRec{name: fmt.Sprintf("l%d", li), hooks: &upk.HookRec{}}
		r.up, err = conn.OpenUpstream(ctx, "by-"+r.name, iscp.WithUpstreamQoS(message.QoS(q)), c.Policy.Option(), iscp.WithUpstreamReceiveAckHooker(r.hooks),
			iscp.WithUpstreamSendDataPointsHooker(r.hooks), iscp.WithUpstreamClosedEventHandler(r.hooks), iscp.WithUpstreamCloseTimeout(2*time.Second))
		if err != nil {
			return ev.Failf("harness", "open %s: %v", r.name, err)
		}
		ups = append(ups, r)
		for n := 1; n <= c.Writes; n++ {
			p := &message.DataPoint{ElapsedTime: upk.Elapsed(50+li, n), Payload: []byte(fmt.Sprintf("%s-point-%03d", r.name, n))}
			id := &message.DataID{Name: "id-" + r.name, Type: "t"}
			wctx, wc := sim.Ctx(perCall)
			err := r.up.WriteDataPoints(wctx, id, p)
			if err == nil {
				err = r.up.Flush(wctx)
			}
			wc()
			if err != nil {
				break
			}
			r.accepted = append(r.accepted, sim.Point{Name: id.Name, Type: id.Type, Elapsed: p.ElapsedTime, Payload: p.Payload})
		}
		k.Label("late-upstream-behind-pilot")
	}
	feed(c.Chunks - c.Chunks/2)
	// quiescence: readers have everything
	for dl := time.Now().Add(2 * time.Second); time.Now().Before(dl); time.Sleep(time.Millisecond) {
		done := true
		for _, r := range downs {
			if len(r.got) < sentTo[r.name] {
				done = false
			}
		}
		if done {
			break
		}
	}
	// sent storage per stream == that stream's own unacknowledged chunks (before anything is closed)
	time.Sleep(3 * time.Millisecond)
	hist := func() any {
		var led []string
		for _, e := range b.Ledger() {
			if e.Kind == "Ping" || e.Kind == "Pong" {
				continue
			}
			d := "->"
			if e.In {
				d = "<-"
			}
			s := fmt.Sprintf("%dus inc%d %s %s", e.T, e.Inc, d, e.Kind)
			if ch, ok := e.Msg.(*message.UpstreamChunk); ok {
				s += fmt.Sprintf(" alias=%d seq=%d", ch.StreamIDAlias, ch.StreamChunk.SequenceNumber)
				if e.Up != nil {
					s += fmt.Sprintf(" stream=%x", e.Up.ID[12:])
				}
			}
			led = append(led, s)
		}
		if len(led) > 200 {
			led = append(led[:100], led[len(led)-100:]...)
		}
		return map[string]any{"ledger": led}
	}
	storage := conn.VerifSentStorage()
	if !c.Outage {
		for _, r := range ups {
			m, err := storage.List(context.Background(), r.up.ID)
			for dl := time.Now().Add(2 * time.Second); err == nil && len(m) != 0 && time.Now().Before(dl); {
				time.Sleep(time.Millisecond) // the acks are on their way through the client's dispatching
				m, err = storage.List(context.Background(), r.up.ID)
			}
			if err == nil && len(m) != 0 {
				return ev.Failf("C07.3 storage-isolation", "every chunk of %s was acknowledged, yet its sent storage still holds %d chunk(s)", r.name, len(m)).WithHistory(hist())
			}
		}
	}
	rcancel()
	rwg.Wait()
	// close bystanders (waits for the remaining acks)
	for _, r := range ups {
		cctx, cc := sim.Ctx(3 * time.Second)
		sim.Call(perCall, func() { r.up.Close(cctx) })
		cc()
	}
	time.Sleep(3 * time.Millisecond)
	led := b.Ledger()
	// ---- oracle: every bystander as if it were alone ----
	for i, r := range ups {
		_ = i
		closed := r.closedEv
		for _, e := range r.hooks.ClosedEvents() {
			if e.Err != nil {
				closed = true
			}
		}
		st := b.Upstream(r.up.ID)
		before, after, _ := r.hooks.Snapshot()
		// acks: every result delivered to this stream's hook is one the broker addressed to this stream
		want := fmt.Sprintf("ack-for-%x-", r.up.ID[12:])
		for _, a := range after {
			if len(a.ResultString) < len(want) || a.ResultString[:len(want)] != want {
				return ev.Failf("C07.2 ack-misdelivered", "the ack hook of %s received the result %q, which the broker addressed to another stream", r.name, a.ResultString).WithHistory(hist())
			}
		}
		// configuration: what this stream asked the broker for, and what it reports as its configuration, is what it was opened with
		// (bystanders are opened with the library defaults for ack interval and expiry) whatever other streams configured
		if st != nil && st.OpenReq != nil {
			if st.OpenReq.AckInterval != defaultAckInterval || st.OpenReq.ExpiryInterval != defaultExpiry {
				return ev.Failf("C07.1 configuration-leak", "%s was opened with default options but asked the broker for ack interval %v / expiry %v (defaults %v / %v): another stream's options leaked", r.name,
					st.OpenReq.AckInterval, st.OpenReq.ExpiryInterval, defaultAckInterval, defaultExpiry).WithHistory(hist())
			}
		}
		if ai := r.up.Config.AckInterval; ai != nil && *ai != defaultAckInterval {
			return ev.Failf("C07.1 configuration-leak", "%s was opened with default options; its Config now reports ack interval %v (default %v)", r.name, *ai, defaultAckInterval).WithHistory(hist())
		}
		// ... and every result the broker addressed to this stream reaches its hook (late is fine, lost is not)
		if !c.Outage {
			sent := 0
			for _, e := range led {
				if a, ok := e.Msg.(*message.UpstreamChunkAck); ok && !e.In {
					for _, res := range a.Results {
						if strings.HasPrefix(res.ResultString, want) {
							sent++
						}
					}
				}
			}
			for dl := time.Now().Add(2 * time.Second); len(after) < sent && time.Now().Before(dl); time.Sleep(time.Millisecond) {
				_, after, _ = r.hooks.Snapshot()
			}
			if len(after) < sent {
				return ev.Failf("C07.2 ack-lost", "the broker sent %d chunk results addressed to %s, its ack hook received %d", sent, r.name, len(after)).WithHistory(hist())
			}
		}
		if closed {
			k.Label("bystander-reported-closed")
			if !c.Outage {
				return ev.Failf("C07.2 bystander-closed", "bystander %s was closed although only other streams went through lifecycle operations", r.name).WithHistory(hist())
			}
			continue
		}
		// every chunk this stream cut reached the broker with this stream's content, attributed to this stream
		reliable := qosOf[i] == 1
		for _, bc := range before {
			var pts []sim.Point
			for _, g := range bc.DataPointGroups {
				for _, p := range g.DataPoints {
					pts = append(pts, sim.Point{Name: g.DataID.Name, Type: g.DataID.Type, Elapsed: p.ElapsedTime, Payload: p.Payload})
				}
			}
			es := st.Chunks[bc.SequenceNumber]
			if len(es) == 0 {
				if c.Outage && !reliable {
					continue // a non-reliable stream may lose what was in flight at the failure
				}
				return ev.Failf("C07.2 bystander-data-lost", "%s (qos %d): chunk seq %d was cut but never reached the broker, although nothing but OTHER streams' lifecycle%s happened", r.name, qosOf[i], bc.SequenceNumber,
					map[bool]string{true: " and a link failure that this reliable stream has to survive", false: ""}[c.Outage]).WithHistory(hist())
			}
			for _, e := range es {
				if fmt.Sprint(upk.SortedKeys(e.Points)) != fmt.Sprint(upk.SortedKeys(pts)) {
					return ev.Failf("C07.2 bystander-content", "%s: chunk seq %d arrived with content that is not what this stream cut (%d vs %d points)", r.name, bc.SequenceNumber, len(e.Points), len(pts)).WithHistory(hist())
				}
			}
		}
		// everything the broker attributes to this stream is this stream's own data
		for _, es := range st.Chunks {
			for _, e := range es {
				for _, p := range e.Points {
					if p.Name != "id-"+r.name || !bytes.HasPrefix(p.Payload, []byte(r.name+"-point-")) {
						return ev.Failf("C07.2 foreign-data", "the broker received, under the alias of %s, a point of data id %q with payload %q", r.name, p.Name, p.Payload).WithHistory(hist())
					}
				}
			}
		}
		if !c.Outage {
			if st.CloseReq == nil || int(st.CloseReq.TotalDataPoints) != len(r.accepted) || int(st.CloseReq.FinalSequenceNumber) != len(before) {
				return ev.Failf("C07.2 bystander-totals", "%s: close request %+v, accepted %d points in %d chunks", r.name, st.CloseReq, len(r.accepted), len(before)).WithHistory(hist())
			}
		}
	}
	for _, r := range downs {
		// everything delivered to a downstream carries that downstream's marker, in the broker's order, nothing missing on a healthy link
		last := uint32(0)
		for _, ch := range r.got {
			if ch.UpstreamInfo.SessionID != "for-"+r.name {
				return ev.Failf("C07.2 chunk-misdelivered", "%s received a chunk the broker addressed to another stream (upstream session %q)", r.name, ch.UpstreamInfo.SessionID).WithHistory(hist())
			}
			for _, g := range ch.DataPointGroups {
				for _, p := range g.DataPoints {
					if !bytes.HasPrefix(p.Payload, []byte("to-"+r.name+"-")) {
						return ev.Failf("C07.2 chunk-misdelivered", "%s received the payload %q", r.name, p.Payload).WithHistory(hist())
					}
				}
			}
			if ch.SequenceNumber <= last {
				return ev.Failf("C07.2 downstream-order", "%s: sequence %d after %d", r.name, ch.SequenceNumber, last).WithHistory(hist())
			}
			last = ch.SequenceNumber
		}
		if len(r.errs) > 0 {
			return ev.Failf("C07.2 downstream-error", "%s: ReadDataPoints errors %v", r.name, r.errs).WithHistory(hist())
		}
		if !c.Outage && len(r.got) != sentTo[r.name] {
			return ev.Failf("C07.2 downstream-loss", "%s: the broker sent %d chunks to its alias, %d were read", r.name, sentTo[r.name], len(r.got)).WithHistory(hist())
		}
	}
	_ = led
	k.Label(fmt.Sprintf("ups=%d downs=%d", len(ups), len(downs)))
	if c.Outage {
		k.Label("outage")
	}
	hasRel, hasNon := false, false
	for _, q := range c.UpQoS {
		if q == 1 {
			hasRel = true
		} else {
			hasNon = true
		}
	}
	if (c.Outage && hasRel && hasNon) || (len(c.Victims) > 0 && len(ups)+len(downs) >= 2) {
		k.NonTrivial(ev.JSON(c))
	}
	if c.Outage && hasRel && hasNon {
		k.Label("reliable+non-reliable-resume-side-by-side")
	}
	k.Sample(func() any { return c })
	return nil
}

var subConn = ev.Sub[ConnCase]{Name: "connection", Repeats: 10, Q: 40, T: 1200,
	Gen: func(t *rapid.T) ConnCase {
		c := ConnCase{Codec: rapid.SampledFrom([]string{"proto", "json"}).Draw(t, "codec"), Writes: rapid.IntRange(2, 12).Draw(t, "writes"), Chunks: rapid.IntRange(2, 20).Draw(t, "chunks"),
			Outage: rapid.IntRange(0, 2).Draw(t, "outage") == 0, Policy: upk.Policy{Kind: "none"}}
		nu := rapid.IntRange(1, 4).Draw(t, "nups")
		nd := rapid.IntRange(0, 3).Draw(t, "ndowns")
		for i := 0; i < nu; i++ {
			c.UpQoS = append(c.UpQoS, rapid.IntRange(0, 2).Draw(t, "uq"))
			c.Withhold = append(c.Withhold, rapid.SampledFrom([]int{0, 1, 2, 3}).Draw(t, "withhold"))
		}
		for i := 0; i < nd; i++ {
			c.DownQoS = append(c.DownQoS, rapid.IntRange(1, 2).Draw(t, "dq"))
		}
		c.Victims = rapid.SliceOfN(rapid.SampledFrom([]string{"open-close-up", "open-close-down", "failed-open-up", "failed-open-down", "metadata", "dead-down-flood", "stray-metadata"}), 0, 8).Draw(t, "victims")
		c.Interleave = rapid.SliceOfN(rapid.SampledFrom([]int{0, 0, 20, 100, 400}), 1, 5).Draw(t, "interleave")
		c.ReuseAliases = rapid.Bool().Draw(t, "reuse")
		c.DefaultPolicy = !c.Outage && rapid.IntRange(0, 3).Draw(t, "defaultpolicy") == 0
		if !c.Outage && rapid.IntRange(0, 2).Draw(t, "late") == 0 {
			c.LateUps = rapid.SliceOfN(rapid.IntRange(0, 2), 1, 2).Draw(t, "lateups")
		}
		return c
	}, Run: runConn}

func TestConn(t *testing.T)   { subConn.Check(t) }
func TestReplay(t *testing.T) { ev.ReplayTest(t, subStore, subConn) }

// TestRegress: repaired defects (known_findings.json, status fixed).
func TestRegress(t *testing.T) {
	if ev.ShardIndex() != 0 {
		t.Skip("shard 0")
	}
	// C07-clear-wipes-all-streams: storage level and connection level (reliable + non-reliable upstreams resume side by side)
	subStore.One(t, StoreCase{Flavour: "payload", Streams: 2, Ops: [][]StoreOp{{{Kind: "store", Stream: 0, Seq: 1, Points: 1}, {Kind: "store", Stream: 1, Seq: 1, Points: 1}, {Kind: "clear", Stream: 1}}}})
	for i := 0; i < 4; i++ {
		subConn.One(t, ConnCase{Codec: "proto", UpQoS: []int{1, 0, 2, 1}, DownQoS: []int{1}, Writes: 6, Chunks: 4, Outage: true, Withhold: []int{3, 0, 0, 2}, Interleave: []int{0, 50}, Policy: upk.Policy{Kind: "none"}})
	}
	// seeded change C07/m6: bystanders on the default flush policy while a victim with the same default is opened and closed
	subConn.One(t, ConnCase{Codec: "proto", UpQoS: []int{1, 0}, DownQoS: []int{1}, Writes: 6, Chunks: 2, Victims: []string{"open-close-up", "open-close-up"}, Interleave: []int{400}, Policy: upk.Policy{Kind: "none"}, DefaultPolicy: true})
	// seeded change C07/m5: stray metadata for a bystander's alias, then a lifecycle operation of another stream
	subConn.One(t, ConnCase{Codec: "proto", UpQoS: []int{1}, DownQoS: []int{1, 2}, Writes: 3, Chunks: 8, Victims: []string{"stray-metadata", "open-close-down"}, Interleave: []int{0}, Policy: upk.Policy{Kind: "none"}})
	// seeded change C07/m2: a dead-but-served downstream floods the connection's dispatcher
	subConn.One(t, ConnCase{Codec: "proto", UpQoS: []int{1}, DownQoS: []int{1, 2}, Writes: 3, Chunks: 6, Victims: []string{"dead-down-flood"}, Interleave: []int{0}, Policy: upk.Policy{Kind: "none"}})
}
