// Package fakequic is an in-memory quic.Connection pair: one unidirectional stream each way
// (delivered in arbitrary short reads) plus a datagram path whose delivery the harness controls.
package fakequic

import (
	"context"
	"errors"
	"io"
	"net"
	"sync"
	"time"

	quic "github.com/quic-go/quic-go"
)

// byteStream is a one-way byte pipe with controllable read chunking.
type byteStream struct {
	mu     sync.Mutex
	cond   *sync.Cond
	buf    []byte
	closed bool
	// ReadMax > 0: at most that many bytes per Read (short reads)
	readMax func() int
	// Captured: everything ever written
	Captured []byte
	capture  bool
}

func newByteStream() *byteStream {
	s := &byteStream{}
	s.cond = sync.NewCond(&s.mu)
	return s
}

func (s *byteStream) Write(p []byte) (int, error) {
	s.mu.Lock()
	defer s.mu.Unlock()
	if s.closed {
		return 0, &quic.ApplicationError{ErrorCode: 0, ErrorMessage: "closed"}
	}
	s.buf = append(s.buf, p...)
	if s.capture {
		s.Captured = append(s.Captured, p...)
	}
	s.cond.Broadcast()
	return len(p), nil
}

func (s *byteStream) Read(p []byte) (int, error) {
	s.mu.Lock()
	defer s.mu.Unlock()
	for len(s.buf) == 0 {
		if s.closed {
			return 0, io.EOF
		}
		s.cond.Wait()
	}
	n := len(p)
	if n > len(s.buf) {
		n = len(s.buf)
	}
	if s.readMax != nil {
		if m := s.readMax(); m > 0 && n > m {
			n = m
		}
	}
	copy(p, s.buf[:n])
	s.buf = s.buf[n:]
	return n, nil
}

func (s *byteStream) close() {
	s.mu.Lock()
	s.closed = true
	s.cond.Broadcast()
	s.mu.Unlock()
}

type sendStream struct {
	s   *byteStream
	ctx context.Context
}

func (w *sendStream) Write(p []byte) (int, error)        { return w.s.Write(p) }
func (w *sendStream) Close() error                       { w.s.close(); return nil }
func (w *sendStream) CancelWrite(quic.StreamErrorCode)   { w.s.close() }
func (w *sendStream) Context() context.Context           { return w.ctx }
func (w *sendStream) SetWriteDeadline(t time.Time) error { return nil }
func (w *sendStream) StreamID() quic.StreamID            { return 2 }

type recvStream struct{ s *byteStream }

func (r *recvStream) Read(p []byte) (int, error)        { return r.s.Read(p) }
func (r *recvStream) CancelRead(quic.StreamErrorCode)   { r.s.close() }
func (r *recvStream) SetReadDeadline(t time.Time) error { return nil }
func (r *recvStream) StreamID() quic.StreamID           { return 3 }

// Conn is one end of the pair.
type Conn struct {
	ctx    context.Context
	cancel context.CancelFunc
	out    *byteStream // we write, peer reads
	in     *byteStream // peer writes, we read
	peer   *Conn

	dmu   sync.Mutex
	dgIn  [][]byte // datagrams ready for ReceiveDatagram
	dgSig chan struct{}
	// Outbox: datagrams sent by this end, when ManualDatagrams is set on this end they are not delivered
	// automatically; the harness moves them with Deliver.
	ManualDatagrams bool
	// FailSendIn > 0: the FailSendIn-th SendDatagram from now fails once (guarded by dmu; set it between sends)
	FailSendIn    int
	Outbox        [][]byte
	SentDatagrams int
	SentBytes     int
	accepted      bool
	opened        bool
}

// Pair returns two connected ends. readMax (may be nil) limits the size of every stream read.
func Pair(readMax func() int) (*Conn, *Conn) {
	a2b, b2a := newByteStream(), newByteStream()
	a2b.readMax, b2a.readMax = readMax, readMax
	a2b.capture, b2a.capture = true, true
	ctxA, ca := context.WithCancel(context.Background())
	ctxB, cb := context.WithCancel(context.Background())
	a := &Conn{ctx: ctxA, cancel: ca, out: a2b, in: b2a, dgSig: make(chan struct{}, 1)}
	b := &Conn{ctx: ctxB, cancel: cb, out: b2a, in: a2b, dgSig: make(chan struct{}, 1)}
	a.peer, b.peer = b, a
	return a, b
}

// CapturedOut returns every byte this end wrote to its stream.
func (c *Conn) CapturedOut() []byte {
	c.out.mu.Lock()
	defer c.out.mu.Unlock()
	return append([]byte(nil), c.out.Captured...)
}

func (c *Conn) AcceptStream(ctx context.Context) (quic.Stream, error) {
	<-ctx.Done()
	return nil, ctx.Err()
}

func (c *Conn) AcceptUniStream(ctx context.Context) (quic.ReceiveStream, error) {
	c.dmu.Lock()
	first := !c.accepted
	c.accepted = true
	c.dmu.Unlock()
	if first {
		return &recvStream{s: c.in}, nil
	}
	select {
	case <-ctx.Done():
		return nil, ctx.Err()
	case <-c.ctx.Done():
		return nil, &quic.ApplicationError{ErrorCode: 0}
	}
}

func (c *Conn) OpenStream() (quic.Stream, error) { return nil, errors.New("fakequic: no bidi streams") }
func (c *Conn) OpenStreamSync(context.Context) (quic.Stream, error) {
	return nil, errors.New("fakequic: no bidi streams")
}
func (c *Conn) OpenUniStream() (quic.SendStream, error) {
	return &sendStream{s: c.out, ctx: c.ctx}, nil
}
func (c *Conn) OpenUniStreamSync(context.Context) (quic.SendStream, error) { return c.OpenUniStream() }
func (c *Conn) LocalAddr() net.Addr                                        { return &net.UDPAddr{IP: net.IPv4(127, 0, 0, 1), Port: 1} }
func (c *Conn) RemoteAddr() net.Addr                                       { return &net.UDPAddr{IP: net.IPv4(127, 0, 0, 1), Port: 2} }

func (c *Conn) CloseWithError(code quic.ApplicationErrorCode, msg string) error {
	c.cancel()
	c.out.close()
	c.in.close()
	if c.peer != nil {
		c.peer.cancel()
	}
	return nil
}

func (c *Conn) Context() context.Context { return c.ctx }
func (c *Conn) ConnectionState() quic.ConnectionState {
	return quic.ConnectionState{SupportsDatagrams: true}
}

// SendDatagram hands the datagram to the peer (or to the Outbox in manual mode).
func (c *Conn) SendDatagram(p []byte) error {
	select {
	case <-c.ctx.Done():
		return &quic.ApplicationError{ErrorCode: 0}
	default:
	}
	cp := append([]byte(nil), p...)
	c.dmu.Lock()
	if c.FailSendIn > 0 {
		c.FailSendIn--
		if c.FailSendIn == 0 {
			c.dmu.Unlock()
			return errors.New("fakequic: injected SendDatagram failure")
		}
	}
	c.SentDatagrams++
	c.SentBytes += len(p)
	if c.ManualDatagrams {
		c.Outbox = append(c.Outbox, cp)
		c.dmu.Unlock()
		return nil
	}
	c.dmu.Unlock()
	c.peer.Inject(cp)
	return nil
}

// TakeOutbox returns and clears the datagrams sent in manual mode.
func (c *Conn) TakeOutbox() [][]byte {
	c.dmu.Lock()
	defer c.dmu.Unlock()
	o := c.Outbox
	c.Outbox = nil
	return o
}

// Inject makes a datagram available to this end's ReceiveDatagram.
func (c *Conn) Inject(p []byte) {
	c.dmu.Lock()
	c.dgIn = append(c.dgIn, p)
	c.dmu.Unlock()
	select {
	case c.dgSig <- struct{}{}:
	default:
	}
}

// PendingDatagrams reports datagrams injected but not yet received.
func (c *Conn) PendingDatagrams() int {
	c.dmu.Lock()
	defer c.dmu.Unlock()
	return len(c.dgIn)
}

func (c *Conn) ReceiveDatagram(ctx context.Context) ([]byte, error) {
	for {
		c.dmu.Lock()
		if len(c.dgIn) > 0 {
			p := c.dgIn[0]
			c.dgIn = c.dgIn[1:]
			more := len(c.dgIn) > 0
			c.dmu.Unlock()
			if more {
				select {
				case c.dgSig <- struct{}{}:
				default:
				}
			}
			return p, nil
		}
		c.dmu.Unlock()
		select {
		case <-c.dgSig:
		case <-ctx.Done():
			return nil, ctx.Err()
		case <-c.ctx.Done():
			return nil, &quic.ApplicationError{ErrorCode: 0}
		}
	}
}

var _ quic.Connection = (*Conn)(nil)
