// Package c13nhooyr: C13 over the real nhooyr WebSocket backend (client and server end both wrapped in
// websocket.New) across an httptest loop-back server.
package c13nhooyr

import (
	"net/http"
	"net/http/httptest"
	"strings"
	"testing"
	"time"

	"github.com/aptpod/iscp-go/transport/compress"
	"github.com/aptpod/iscp-go/transport/websocket"
	backend "github.com/aptpod/iscp-go/transport/websocket/nhooyr"
	lib "nhooyr.io/websocket"
	"pgregory.net/rapid"

	"verifharness/ev"
	"verifharness/tk"
)

func TestMain(m *testing.M) { ev.MainExit(m, "C13") }

func peerBase(c tk.Comp) compress.Config {
	if c.FullyNamed() {
		return compress.Config{Enable: true, Level: 9, WindowBits: 12, DisableContextTakeover: false}
	}
	return tk.BaseA
}

func pair(c tk.Comp) (*tk.Pair, error) {
	type res struct {
		conn websocket.Conn
		err  error
	}
	ch := make(chan res, 1)
	done := make(chan struct{})
	srv := httptest.NewServer(http.HandlerFunc(func(w http.ResponseWriter, r *http.Request) {
		sc, err := lib.Accept(w, r, &lib.AcceptOptions{InsecureSkipVerify: true})
		if err != nil {
			ch <- res{err: err}
			return
		}
		sc.SetReadLimit(-1)
		ch <- res{conn: backend.New(sc)}
		<-done
	}))
	url := "ws" + strings.TrimPrefix(srv.URL, "http")
	cc, err := backend.DialWithTLS(websocket.DialConfig{URL: url})
	if err != nil {
		close(done)
		srv.Close()
		return nil, err
	}
	var sr res
	select {
	case sr = <-ch:
	case <-time.After(5 * time.Second):
		close(done)
		srv.Close()
		return nil, http.ErrHandlerTimeout
	}
	if sr.err != nil {
		close(done)
		srv.Close()
		return nil, sr.err
	}
	np := websocket.NegotiationParams{NegotiationParams: c.Params()}
	a := websocket.New(websocket.Config{Conn: cc, NegotiationParams: np, CompressConfig: tk.BaseA})
	b := websocket.New(websocket.Config{Conn: sr.conn, NegotiationParams: np, CompressConfig: peerBase(c)})
	return &tk.Pair{A: a, B: b, Close: func() {
		// both ends at once: the backends' close handshake waits for the peer's close frame
		ch := make(chan struct{})
		go func() { a.Close(); close(ch) }()
		b.Close()
		<-ch
		close(done)
		srv.Close()
	}}, nil
}

var sub = ev.Sub[tk.Case]{Name: "websocket-nhooyr", Q: 60, T: 2000,
	Gen: func(t *rapid.T) tk.Case {
		c := tk.Gen(t, nil, 30, false)

		return c
	},
	Run: func(c tk.Case, k *ev.Case) *ev.Failure {
		p, err := pair(c.Comp)
		if err != nil {
			return ev.Failf("harness", "loop-back pair: %v", err)
		}
		defer p.Close()
		return tk.Run(c, p, k, "websocket-nhooyr")
	}}

func TestProp(t *testing.T) { sub.Check(t) }

// TestGrid: one dictionary-sensitive sequence per cell of the compression grid (sharded)
func TestGrid(t *testing.T) {
	seq := []tk.Msg{{Size: 300, Kind: "periodic", Seed: 3}, {Size: 300, Kind: "prev"}, {Size: 0, Kind: "const"}, {Size: 1, Kind: "const", Seed: 7}, {Size: 70000, Kind: "periodic", Seed: 5},
		{Size: 33000, Kind: "prefix", Seed: 4}, {Size: 1025, Kind: "const", Seed: 9}, {Size: 65537, Kind: "prev-compressible", Seed: 2}}
	ok := true
	for gi, comp := range tk.Grid() {
		if gi%ev.NShards() != ev.ShardIndex() || (gi/ev.NShards())%3 != 0 && !ev.Thorough() {
			continue
		}
		ok = sub.One(t, tk.Case{Comp: comp, Writers: 1, Msgs: seq}) && ok
	}
	_ = ok
}

func TestReplay(t *testing.T) { ev.ReplayTest(t, sub) }
