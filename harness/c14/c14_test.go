// Package c14: datagram messages are reassembled exactly or not at all.
package c14

import (
	"bytes"
	"encoding/binary"
	"errors"
	"fmt"
	"sort"
	"sync"
	"testing"
	"time"

	ierrors "github.com/aptpod/iscp-go/errors"
	"github.com/aptpod/iscp-go/transport"
	tquic "github.com/aptpod/iscp-go/transport/quic"
	"github.com/aptpod/iscp-go/verifhook"
	"pgregory.net/rapid"

	"verifharness/ev"
	"verifharness/fakequic"
)

func TestMain(m *testing.M) { ev.MainExit(m, "C14") }

var P = verifhook.SegmentMaxPayloadSize()

type capture struct{ out [][]byte }

func (c *capture) SendDatagram(b []byte) error {
	c.out = append(c.out, append([]byte(nil), b...))
	return nil
}

func body(msg, n int) []byte {
	b := make([]byte, n)
	for i := range b {
		b[i] = byte(i*7 + msg*131 + i/251)
	}
	return b
}

// segmentsOf sends a message through the real sender and checks the datagram structure (oracle part "sender").
func segmentsOf(seq uint32, payload []byte) ([][]byte, *ev.Failure) {
	var c capture
	n, err := verifhook.SegmentSendTo(&c, seq, payload)
	if err != nil {
		return nil, ev.Failf("C14.4 sender-refused", "sender refused a %d byte message: %v", len(payload), err)
	}
	total := 0
	var re []byte
	for i, d := range c.out {
		total += len(d)
		if len(d) < 8 || len(d) > 8+P {
			return nil, ev.Failf("C14.4 datagram-size", "datagram %d has %d bytes (limit %d)", i, len(d), 8+P)
		}
		if s := binary.BigEndian.Uint32(d[:4]); s != seq {
			return nil, ev.Failf("C14.4 header", "datagram %d carries sequence number %d, message was sent as %d", i, s, seq)
		}
		if mx := int(binary.BigEndian.Uint16(d[4:6])); mx != len(c.out)-1 {
			return nil, ev.Failf("C14.4 header", "datagram %d announces max index %d, %d datagrams were emitted", i, mx, len(c.out))
		}
		if ix := int(binary.BigEndian.Uint16(d[6:8])); ix != i {
			return nil, ev.Failf("C14.4 header", "datagram %d carries index %d", i, ix)
		}
		re = append(re, d[8:]...)
	}
	if n != total {
		return nil, ev.Failf("C14.4 byte-total", "SendTo reports %d bytes, datagrams sum to %d", n, total)
	}
	if !bytes.Equal(re, payload) {
		return nil, ev.Failf("C14.4 split", "concatenated segment payloads differ from the message (%d vs %d bytes)", len(re), len(payload))
	}
	return c.out, nil
}

// ---------------------------------------------------------------------------------------------
// delivery cases (direct, through the hook)

type Msg struct {
	Len int    `json:"len"`
	Seq uint32 `json:"seq"`
}

// Event: deliver segment Seg of message Msg | advance the clock | remove expired
type Event struct {
	Kind string `json:"kind"` // deliver | advance | expire
	Msg  int    `json:"msg,omitempty"`
	Seg  int    `json:"seg,omitempty"`
	Ms   int    `json:"ms,omitempty"`
}

type Case struct {
	Msgs     []Msg   `json:"msgs"`
	Events   []Event `json:"events"`
	ExpiryMs int     `json:"expiry_ms"`
}

type modelBuf struct {
	got     map[int]bool
	n       int
	expires time.Time
}

func runDelivery(c Case, k *ev.Case) *ev.Failure {
	now := time.Unix(1_700_000_000, 0)
	restore := verifhook.SegmentSetTimeNow(func() time.Time { return now })
	defer restore()
	expiry := time.Duration(c.ExpiryMs) * time.Millisecond
	rb := &verifhook.SegmentReadBuffers{ReadBuffer: map[uint32]*verifhook.SegmentReadBuffer{}, ReadBufferExpiry: expiry}
	segs := make([][][]byte, len(c.Msgs))
	bodies := make([][]byte, len(c.Msgs))
	for i, m := range c.Msgs {
		bodies[i] = body(i, m.Len)
		s, f := segmentsOf(m.Seq, bodies[i])
		if f != nil {
			return f
		}
		segs[i] = s
	}
	model := map[uint32]*modelBuf{}
	delivered := map[[2]int]bool{}
	outOfOrder, lossy, interleaved, expired := false, false, false, false
	lastMsg := -1
	for ei, e := range c.Events {
		switch e.Kind {
		case "advance":
			now = now.Add(time.Duration(e.Ms) * time.Millisecond)
		case "expire":
			rb.RemoveExpired()
			for s, b := range model {
				if now.After(b.expires) {
					delete(model, s)
					expired = true
				}
			}
		case "deliver":
			if e.Msg >= len(segs) || e.Seg >= len(segs[e.Msg]) || delivered[[2]int{e.Msg, e.Seg}] {
				continue // duplicate delivery is outside the stated quantifier
			}
			delivered[[2]int{e.Msg, e.Seg}] = true
			if lastMsg >= 0 && lastMsg != e.Msg {
				interleaved = true
			}
			lastMsg = e.Msg
			seq := c.Msgs[e.Msg].Seq
			mb := model[seq]
			if mb == nil {
				mb = &modelBuf{got: map[int]bool{}, n: len(segs[e.Msg])}
				model[seq] = mb
			}
			for g := range mb.got {
				if g > e.Seg {
					outOfOrder = true
				}
			}
			mb.got[e.Seg] = true
			mb.expires = now.Add(expiry)
			wantDone := len(mb.got) == mb.n
			var got []byte
			var ok bool
			var err error
			func() {
				defer func() {
					if r := recover(); r != nil {
						err = fmt.Errorf("panic: %v", r)
					}
				}()
				got, ok, err = rb.Receive(append([]byte(nil), segs[e.Msg][e.Seg]...))
			}()
			if err != nil {
				return ev.Failf("C14.1 receive-error", "event %d: Receive failed on a well-formed segment: %v", ei, err)
			}
			if wantDone {
				delete(model, seq)
				if !ok {
					return ev.Failf("C14.1 not-reassembled", "event %d: all %d segments of message %d (seq %d, %d bytes) are in, nothing was handed up", ei, mb.n, e.Msg, seq, c.Msgs[e.Msg].Len)
				}
				if !bytes.Equal(got, bodies[e.Msg]) {
					return ev.Failf("C14.1 corrupted", "event %d: message %d reassembled to %d bytes that differ from the %d bytes sent (first difference at %d)", ei, e.Msg, len(got), len(bodies[e.Msg]), firstDiff(got, bodies[e.Msg]))
				}
			} else if ok {
				return ev.Failf("C14.2 partial-handed-up", "event %d: message %d (seq %d) handed up %d bytes with only %d of %d segments present", ei, e.Msg, seq, len(got), len(mb.got), mb.n)
			}
		}
	}
	for mi := range c.Msgs {
		for si := range segs[mi] {
			if !delivered[[2]int{mi, si}] {
				lossy = true
			}
		}
	}
	if outOfOrder {
		k.Label("out-of-order")
	}
	if lossy {
		k.Label("loss")
	}
	if interleaved {
		k.Label("interleaved")
	}
	if expired {
		k.Label("expired-while-incomplete")
	}
	maxSegs := 0
	for _, s := range segs {
		if len(s) > maxSegs {
			maxSegs = len(s)
		}
	}
	if (maxSegs >= 3 && outOfOrder) || lossy || interleaved {
		k.NonTrivial(ev.JSON(c))
	}
	k.Sample(func() any { return c })
	return nil
}

func firstDiff(a, b []byte) int {
	for i := 0; i < len(a) && i < len(b); i++ {
		if a[i] != b[i] {
			return i
		}
	}
	if len(a) < len(b) {
		return len(a)
	}
	return len(b)
}

func nsegs(l int) int {
	if l <= P {
		return 1
	}
	return l/P + 1
}

var lengthClasses = func() []int {
	l := []int{0, 1, P - 1, P, P + 1, 2*P - 1, 2 * P, 2*P + 1}
	for kk := 3; kk <= 6; kk++ {
		l = append(l, kk*P-1, kk*P, kk*P+1)
	}
	return l
}()

var subDelivery = ev.Sub[Case]{Name: "delivery", Q: 1500, T: 40000,
	Gen: func(t *rapid.T) Case {
		c := Case{ExpiryMs: rapid.SampledFrom([]int{10, 100, 10000}).Draw(t, "expiry")}
		nm := rapid.IntRange(1, 4).Draw(t, "nmsgs")
		base := rapid.SampledFrom([]uint32{0, 1, 0xFFFFFFFE, 0xFFFFFFFF, 12345}).Draw(t, "seqbase")
		for i := 0; i < nm; i++ {
			var l int
			switch rapid.IntRange(0, 3).Draw(t, "lenkind") {
			case 0:
				l = rapid.SampledFrom(lengthClasses).Draw(t, "lenclass")
			case 1:
				l = rapid.IntRange(0, 20*P).Draw(t, "len")
			case 2:
				l = rapid.IntRange(1, 20).Draw(t, "k")*P + rapid.IntRange(-1, 1).Draw(t, "delta")
			default:
				l = rapid.IntRange(0, 3*P).Draw(t, "lensmall")
			}
			c.Msgs = append(c.Msgs, Msg{Len: l, Seq: base + uint32(i)}) // wraps around 2^32
		}
		// all (msg, seg) pairs, permuted, some lost, interleaved with clock events
		var pairs []Event
		for mi, m := range c.Msgs {
			for s := 0; s < nsegs(m.Len); s++ {
				pairs = append(pairs, Event{Kind: "deliver", Msg: mi, Seg: s})
			}
		}
		perm := rapid.Permutation(pairs).Draw(t, "order")
		if rapid.IntRange(0, 2).Draw(t, "mostly-ordered") == 0 {
			perm = pairs
		}
		lossRate := rapid.SampledFrom([]int{0, 0, 5, 30}).Draw(t, "lossrate")
		for _, e := range perm {
			if lossRate > 0 && rapid.IntRange(0, 99).Draw(t, "lose") < lossRate {
				continue
			}
			c.Events = append(c.Events, e)
			switch rapid.IntRange(0, 11).Draw(t, "clock") {
			case 0:
				c.Events = append(c.Events, Event{Kind: "advance", Ms: rapid.SampledFrom([]int{1, 9, 10, 11, 99, 101, 20000}).Draw(t, "ms")})
			case 1:
				c.Events = append(c.Events, Event{Kind: "expire"})
			}
		}
		return c
	}, Run: runDelivery}

func TestDelivery(t *testing.T) { subDelivery.Check(t) }

// TestExhaustive: all permutations x all loss subsets for every length class up to 6 segments, and all
// interleavings/permutations/losses of two 3-segment messages.
func TestExhaustive(t *testing.T) {
	classes := lengthClasses
	n := 0
	for ci, l := range classes {
		if ci%ev.NShards() != ev.ShardIndex() {
			continue
		}
		kk := nsegs(l)
		if kk > 6 {
			continue
		}
		idx := make([]int, kk)
		for i := range idx {
			idx[i] = i
		}
		ok := true
		permute(idx, func(p []int) bool {
			for mask := 0; mask < 1<<kk; mask++ {
				c := Case{Msgs: []Msg{{Len: l, Seq: uint32(0xFFFFFFFF)}}, ExpiryMs: 10000}
				for _, s := range p {
					if mask&(1<<s) != 0 {
						continue // lost
					}
					c.Events = append(c.Events, Event{Kind: "deliver", Seg: s})
				}
				n++
				if !subDelivery.One(t, c) {
					ok = false
					return false
				}
			}
			return true
		})
		if !ok {
			ev.SetExhaustive("permutations-x-losses<=6", false)
			return
		}
	}
	ev.SetExhaustive("permutations-x-losses<=6", true)
	// two 3-segment messages: every interleaved order of the 6 segments (6! orders) x every loss subset
	if ev.ShardIndex() == 0 {
		idx := []int{0, 1, 2, 3, 4, 5}
		ok := true
		permute(idx, func(p []int) bool {
			for mask := 0; mask < 64; mask++ {
				c := Case{Msgs: []Msg{{Len: 2*P + 5, Seq: 7}, {Len: 2 * P, Seq: 8}}, ExpiryMs: 10000}
				for _, s := range p {
					if mask&(1<<s) != 0 {
						continue
					}
					c.Events = append(c.Events, Event{Kind: "deliver", Msg: s / 3, Seg: s % 3})
				}
				n++
				if !subDelivery.One(t, c) {
					ok = false
					return false
				}
			}
			return true
		})
		ev.SetExhaustive("two-messages-interleaved", ok)
	}
	ev.AddExtra("exhaustive_plans", int64(n))
}

func permute(a []int, f func([]int) bool) bool {
	var rec func(i int) bool
	rec = func(i int) bool {
		if i == len(a) {
			return f(a)
		}
		for j := i; j < len(a); j++ {
			a[i], a[j] = a[j], a[i]
			if !rec(i + 1) {
				return false
			}
			a[i], a[j] = a[j], a[i]
		}
		return true
	}
	return rec(0)
}

// ---------------------------------------------------------------------------------------------
// sender limit

type LimitCase struct {
	Len int `json:"len"`
}

type countSender struct{ n, bytes int }

func (c *countSender) SendDatagram(b []byte) error { c.n++; c.bytes += len(b); return nil }

var subLimit = ev.Sub[LimitCase]{Name: "sender-limit", Gen: func(t *rapid.T) LimitCase { return LimitCase{} },
	Run: func(c LimitCase, k *ev.Case) *ev.Failure {
		k.NonTrivial(ev.JSON(c))
		k.Sample(func() any { return c })
		var s countSender
		n, err := verifhook.SegmentSendTo(&s, 1, make([]byte, c.Len))
		fits := c.Len/P <= 65535
		if fits {
			if err != nil {
				return ev.Failf("C14.4 sender-refused", "a %d byte message (max segment index %d) was refused: %v", c.Len, c.Len/P, err)
			}
			if n != s.bytes {
				return ev.Failf("C14.4 byte-total", "SendTo reports %d, datagrams sum to %d", n, s.bytes)
			}
			return nil
		}
		if err == nil {
			return ev.Failf("C14.4 oversize-accepted", "a %d byte message needs segment index %d > 65535 but was accepted (%d datagrams)", c.Len, c.Len/P, s.n)
		}
		if !errors.Is(err, ierrors.ErrMalformedMessage) {
			return ev.Failf("C14.4 oversize-error", "oversize message refused with %v, which is not the malformed-message error", err)
		}
		if s.n != 0 {
			return ev.Failf("C14.4 oversize-partial", "oversize message refused after %d datagrams had been emitted", s.n)
		}
		return nil
	}}

func TestSenderLimit(t *testing.T) {
	if ev.ShardIndex() != 0 {
		t.Skip("shard 0")
	}
	lens := []int{65535 * P, 65535*P + P - 1}
	if ev.Thorough() {
		lens = append(lens, 65536*P-1, 65536*P, 65536*P+1)
	} else {
		lens = append(lens, 65536*P) // one allocation of 78 MB, refused before anything is copied
	}
	for _, l := range lens {
		subLimit.One(t, LimitCase{Len: l})
	}
}

// ---------------------------------------------------------------------------------------------
// arbitrary datagrams

type GarbageCase struct {
	Datagrams [][]byte `json:"datagrams"`
	Public    bool     `json:"public"`
}

func runGarbage(c GarbageCase, k *ev.Case) *ev.Failure {
	ev.Journal("garbage", c)
	short := false
	for _, d := range c.Datagrams {
		if len(d) < 8 {
			short = true
		}
	}
	if short {
		k.Label("shorter-than-header")
	}
	k.NonTrivial(ev.JSON(c))
	k.Sample(func() any { return c })
	if !c.Public {
		rb := &verifhook.SegmentReadBuffers{ReadBuffer: map[uint32]*verifhook.SegmentReadBuffer{}, ReadBufferExpiry: time.Second}
		for i, d := range c.Datagrams {
			var f *ev.Failure
			func() {
				defer func() {
					if r := recover(); r != nil {
						f = ev.Failf("C14.5 malformed-datagram-panic", "datagram %d (%d bytes, %x) makes Receive panic: %v", i, len(d), trunc(d), r)
					}
				}()
				rb.Receive(append([]byte(nil), d...))
			}()
			if f != nil {
				return f
			}
		}
		// the table must still work
		segs, f := segmentsOf(0xABCDEF01, body(1, 2*P+3))
		if f != nil {
			return f
		}
		var got []byte
		var ok bool
		for _, s := range segs {
			got, ok, _ = rb.Receive(s)
		}
		_ = got
		_ = ok // a colliding garbage header may legitimately have poisoned this sequence number
		return nil
	}
	// public path: a panic in the receive goroutine kills the process (the journal names this case)
	a, b := fakequic.Pair(nil)
	ta, err := tquic.New(tquic.Config{Connection: a})
	if err != nil {
		return ev.Failf("harness", "quic.New: %v", err)
	}
	tb, err := tquic.New(tquic.Config{Connection: b})
	if err != nil {
		return ev.Failf("harness", "quic.New: %v", err)
	}
	defer ta.Close()
	defer tb.Close()
	for _, d := range c.Datagrams {
		b.Inject(append([]byte(nil), d...))
	}
	// a well-formed message afterwards must still arrive (the receive loop is alive)
	ua, _ := ta.AsUnreliable()
	ub, _ := tb.AsUnreliable()
	want := body(9, 3*P+1)
	if err := ua.Write(want); err != nil {
		return ev.Failf("harness", "write: %v", err)
	}
	res := make(chan []byte, 1)
	go func() {
		for {
			m, err := ub.Read()
			if err != nil {
				res <- nil
				return
			}
			if bytes.Equal(m, want) {
				res <- m
				return
			}
		}
	}()
	select {
	case m := <-res:
		if m == nil {
			return ev.Failf("C14.5 receive-loop-dead", "after %d arbitrary datagrams the unreliable read path reports closed; a later well-formed message is lost", len(c.Datagrams))
		}
	case <-time.After(5 * time.Second):
		return ev.Failf("C14.5 receive-loop-dead", "after %d arbitrary datagrams a later well-formed message never arrived", len(c.Datagrams))
	}
	return nil
}

func trunc(b []byte) []byte {
	if len(b) > 24 {
		return b[:24]
	}
	return b
}

func genGarbage(t *rapid.T, public bool) GarbageCase {
	c := GarbageCase{Public: public}
	n := rapid.IntRange(1, 6).Draw(t, "n")
	for i := 0; i < n; i++ {
		var d []byte
		switch rapid.IntRange(0, 3).Draw(t, "kind") {
		case 0:
			d = rapid.SliceOfN(rapid.Byte(), 0, 32).Draw(t, "bytes")
			if len(d) >= 4 {
				d[0] |= 0x80 // keep hostile sequence numbers away from the ones the probe message uses (a poisoned
				// sequence number is allowed to lose its message; the statement only demands survival)
			}
		case 1: // header with index beyond the announced count
			d = make([]byte, 8+rapid.IntRange(0, 16).Draw(t, "extra"))
			binary.BigEndian.PutUint32(d[:4], uint32(1000+rapid.IntRange(0, 3).Draw(t, "seq")))
			mx := rapid.IntRange(0, 5).Draw(t, "max")
			binary.BigEndian.PutUint16(d[4:6], uint16(mx))
			binary.BigEndian.PutUint16(d[6:8], uint16(mx+rapid.IntRange(0, 70000).Draw(t, "beyond")))
		case 2: // same sequence number, disagreeing counts
			d = make([]byte, 8+4)
			binary.BigEndian.PutUint32(d[:4], 1077)
			binary.BigEndian.PutUint16(d[4:6], uint16(rapid.IntRange(0, 4).Draw(t, "max2")))
			binary.BigEndian.PutUint16(d[6:8], uint16(rapid.IntRange(0, 6).Draw(t, "idx2")))
		default:
			d = make([]byte, rapid.IntRange(0, 7).Draw(t, "shortlen"))
		}
		if d == nil {
			d = []byte{}
		}
		c.Datagrams = append(c.Datagrams, d)
	}
	return c
}

var subGarbage = ev.Sub[GarbageCase]{Name: "garbage", Q: 1500, T: 40000, Gen: func(t *rapid.T) GarbageCase { return genGarbage(t, false) }, Run: runGarbage}
var subGarbagePublic = ev.Sub[GarbageCase]{Name: "garbage-public", Q: 150, T: 3000, Gen: func(t *rapid.T) GarbageCase { return genGarbage(t, true) }, Run: runGarbage}

func TestGarbage(t *testing.T)       { subGarbage.Check(t) }
func TestGarbagePublic(t *testing.T) { subGarbagePublic.Check(t) }

// every length 0..32 of zero bytes and 0xff bytes, direct and public
func TestGarbageLengths(t *testing.T) {
	if ev.ShardIndex() != 0 {
		t.Skip("shard 0")
	}
	for l := 0; l <= 32; l++ {
		for _, fill := range []byte{0x00, 0xff} {
			subGarbage.One(t, GarbageCase{Datagrams: [][]byte{bytes.Repeat([]byte{fill}, l)}})
		}
	}
	var all [][]byte
	for l := 0; l <= 32; l++ {
		all = append(all, bytes.Repeat([]byte{0xff}, l))
	}
	subGarbagePublic.One(t, GarbageCase{Datagrams: all, Public: true})
}

// ---------------------------------------------------------------------------------------------
// public path: quic.New over the in-memory pair, harness-controlled datagram delivery

type PublicCase struct {
	Lens     []int `json:"lens"`
	Compress bool  `json:"compress"`
	Order    []int `json:"order"` // permutation of all datagrams (indices into the concatenated outbox)
	Lose     []int `json:"lose"`  // indices lost
	// SendFail[i] = k > 0: while message i is being sent, its k-th SendDatagram fails (once). The Write fails; the datagrams that
	// went out before are on the wire as a message that can never complete, and the messages after it must be unaffected.
	SendFail []int `json:"send_fail,omitempty"`
}

func runPublic(c PublicCase, k *ev.Case) *ev.Failure {
	ev.Journal("public", c)
	a, b := fakequic.Pair(nil)
	a.ManualDatagrams = true
	np := tquic.NegotiationParams{}
	if c.Compress {
		lv, wb := 6, 15
		np.NegotiationParams = transport.NegotiationParams{Compress: "per-message", CompressLevel: &lv, CompressWindowBits: &wb}
	}
	ta, err := tquic.New(tquic.Config{Connection: a, NegotiationParams: np})
	if err != nil {
		return ev.Failf("harness", "quic.New: %v", err)
	}
	tb, err := tquic.New(tquic.Config{Connection: b, NegotiationParams: np})
	if err != nil {
		return ev.Failf("harness", "quic.New: %v", err)
	}
	defer ta.Close()
	defer tb.Close()
	ua, _ := ta.AsUnreliable()
	ub, _ := tb.AsUnreliable()
	var perMsg [][][]byte
	failedSend := map[int]bool{}
	bodies := make([][]byte, len(c.Lens))
	for i, l := range c.Lens {
		bodies[i] = body(i, l)
		if c.Compress { // keep it incompressible enough to span segments
			for j := range bodies[i] {
				bodies[i][j] = byte((j*j*31 + i*17 + j>>3) ^ (j * 2654435761 >> 13))
			}
		}
		inject := 0
		if i < len(c.SendFail) && c.SendFail[i] > 0 && c.SendFail[i] <= nsegs(len(bodies[i])) && !c.Compress {
			inject = c.SendFail[i]
			a.FailSendIn = inject
		}
		err := ua.Write(bodies[i])
		a.FailSendIn = 0
		if inject > 0 {
			if err == nil {
				return ev.Failf("C14.4 send-error-swallowed", "SendDatagram failed on datagram %d of a %d-byte message, Write returned nil", inject, l)
			}
			failedSend[i] = true
			k.Label("send-failure-mid-message")
		} else if err != nil {
			return ev.Failf("C14.4 sender-refused", "unreliable Write of %d bytes: %v", l, err)
		}
		perMsg = append(perMsg, a.TakeOutbox())
	}
	type ref struct{ m, s int }
	var all []ref
	for mi, ds := range perMsg {
		for si := range ds {
			all = append(all, ref{mi, si})
		}
	}
	lost := map[int]bool{}
	for _, i := range c.Lose {
		if len(all) > 0 {
			lost[i%len(all)] = true
		}
	}
	complete := map[int]bool{}
	cnt := map[int]int{}
	var expectOrder []int
	seen := map[int]bool{}
	for _, oi := range c.Order {
		if len(all) == 0 {
			break
		}
		i := oi % len(all)
		if seen[i] || lost[i] {
			continue
		}
		seen[i] = true
		r := all[i]
		b.Inject(perMsg[r.m][r.s])
		cnt[r.m]++
		if cnt[r.m] == len(perMsg[r.m]) && !failedSend[r.m] {
			complete[r.m] = true
			expectOrder = append(expectOrder, r.m)
		}
	}
	// sentinel: a complete single-datagram message; everything completed before it arrives before it
	a.ManualDatagrams = false
	sentinel := []byte("sentinel-end-of-case")
	if err := ua.Write(sentinel); err != nil {
		return ev.Failf("harness", "sentinel: %v", err)
	}
	var got [][]byte
	done := make(chan error, 1)
	go func() {
		for {
			m, err := ub.Read()
			if err != nil {
				done <- err
				return
			}
			if bytes.Equal(m, sentinel) {
				done <- nil
				return
			}
			got = append(got, m)
		}
	}()
	select {
	case err := <-done:
		if err != nil {
			return ev.Failf("C14.1 receive-error", "unreliable Read failed: %v", err)
		}
	case <-time.After(5 * time.Second):
		return ev.Failf("C14.1 not-reassembled", "the sentinel message never arrived (receive loop stuck)")
	}
	if len(got) != len(expectOrder) {
		return ev.Failf("C14.2 wrong-deliveries", "%d messages handed up, %d were completely delivered (lens %v)", len(got), len(expectOrder), c.Lens)
	}
	for i, m := range got {
		if !bytes.Equal(m, bodies[expectOrder[i]]) {
			return ev.Failf("C14.1 corrupted", "delivery %d: %d bytes differ from message %d (%d bytes)", i, len(m), expectOrder[i], len(bodies[expectOrder[i]]))
		}
	}
	if len(lost) > 0 {
		k.Label("loss")
	}
	if c.Compress {
		k.Label("compressed")
	}
	k.NonTrivial(ev.JSON(c))
	k.Sample(func() any { return c })
	return nil
}

var subPublic = ev.Sub[PublicCase]{Name: "public", Q: 200, T: 5000,
	Gen: func(t *rapid.T) PublicCase {
		c := PublicCase{Compress: rapid.Bool().Draw(t, "compress")}
		n := rapid.IntRange(1, 3).Draw(t, "n")
		for i := 0; i < n; i++ {
			c.Lens = append(c.Lens, rapid.OneOf(rapid.SampledFrom(lengthClasses), rapid.IntRange(0, 8*P)).Draw(t, "len"))
		}
		c.Order = rapid.SliceOfN(rapid.IntRange(0, 63), 0, 80).Draw(t, "order")
		// make sure most datagrams are delivered
		for i := 0; i < 40; i++ {
			c.Order = append(c.Order, i)
		}
		if rapid.Bool().Draw(t, "lossy") {
			c.Lose = rapid.SliceOfN(rapid.IntRange(0, 63), 1, 3).Draw(t, "lose")
		}
		if rapid.IntRange(0, 2).Draw(t, "sendfail") == 0 {
			for range c.Lens {
				c.SendFail = append(c.SendFail, rapid.SampledFrom([]int{0, 0, 1, 2, 2, 3, 5}).Draw(t, "failat"))
			}
		}
		return c
	}, Run: runPublic}

func TestPublic(t *testing.T) { subPublic.Check(t) }

func TestReplay(t *testing.T) {
	ev.ReplayTest(t, subDelivery, subLimit, subGarbage, subGarbagePublic, subPublic, subExpiry, subConc)
}

var _ = sort.Ints

// default expiry: with the default configuration an incomplete message is kept for the documented 10 s - far longer than the
// buffer sweep period (1 s). Segments that arrive GapMs apart (a sweep falls in between) still reassemble. One slow case per run
// (seeded change C14/m4: the default had become 10 ns).
type ExpiryCase struct {
	GapMs int `json:"gap_ms"`
	// ExpiryMs > 0: explicit expiry; the partial message is injected StartMs after the transport was created (i.e. after the first
	// sweep), its last segment GapMs later: by then a LATER sweep has forgotten it, the straggler completes nothing (seeded change
	// C14/m5: the sweep ran only once per connection)
	ExpiryMs int `json:"expiry_ms,omitempty"`
	StartMs  int `json:"start_ms,omitempty"`
}

func runExpiry(c ExpiryCase, k *ev.Case) *ev.Failure {
	a, b := fakequic.Pair(nil)
	a.ManualDatagrams = true
	ta, err := tquic.New(tquic.Config{Connection: a})
	if err != nil {
		return ev.Failf("harness", "quic.New: %v", err)
	}
	tb, err := tquic.New(tquic.Config{Connection: b, ReadBufferExpiry: time.Duration(c.ExpiryMs) * time.Millisecond})
	if err != nil {
		return ev.Failf("harness", "quic.New: %v", err)
	}
	defer ta.Close()
	defer tb.Close()
	ua, _ := ta.AsUnreliable()
	ub, _ := tb.AsUnreliable()
	time.Sleep(time.Duration(c.StartMs) * time.Millisecond)
	msg := body(7, 3*P-5)
	if err := ua.Write(msg); err != nil {
		return ev.Failf("harness", "write: %v", err)
	}
	ds := a.TakeOutbox()
	if len(ds) < 2 {
		return ev.Failf("harness", "expected a multi-segment message, got %d datagrams", len(ds))
	}
	got := make(chan []byte, 1)
	go func() {
		m, err := ub.Read()
		if err == nil {
			got <- m
		}
	}()
	for i, d := range ds {
		if i == len(ds)-1 {
			time.Sleep(time.Duration(c.GapMs) * time.Millisecond)
		}
		b.Inject(d)
	}
	k.NonTrivial(ev.JSON(c))
	if c.ExpiryMs > 0 {
		// the message expired long before its last segment: it must never be handed up; a marker sent now is what Read returns
		a.ManualDatagrams = false
		marker := []byte("marker-after-expired-message")
		if err := ua.Write(marker); err != nil {
			return ev.Failf("harness", "marker: %v", err)
		}
		select {
		case m := <-got:
			if !bytes.Equal(m, marker) {
				return ev.Failf("C14.3 not-forgotten", "expiry %d ms: a message whose last segment arrived %d ms after the others (several sweeps later) was still handed up (%d bytes)", c.ExpiryMs, c.GapMs, len(m))
			}
			return nil
		case <-time.After(3 * time.Second):
			return ev.Failf("C14.1 not-reassembled", "the marker message sent after the expired one never arrived")
		}
	}
	select {
	case m := <-got:
		if !bytes.Equal(m, msg) {
			return ev.Failf("C14.1 corrupted", "default expiry: the reassembled message differs (%d vs %d bytes)", len(m), len(msg))
		}
	case <-time.After(3 * time.Second):
		return ev.Failf("C14.3 expired-early", "default configuration (expiry 10 s): a message whose last segment arrived %d ms after the others was never handed up", c.GapMs)
	}
	return nil
}

var subExpiry = ev.Sub[ExpiryCase]{Name: "default-expiry", Run: runExpiry}

func TestDefaultExpiry(t *testing.T) {
	if ev.ShardIndex() != 0 {
		t.Skip("shard 0")
	}
	subExpiry.One(t, ExpiryCase{GapMs: 1300})
	subExpiry.One(t, ExpiryCase{GapMs: 1300, ExpiryMs: 10, StartMs: 1200})
}

// ---------------------------------------------------------------------------------------------
// concurrent unreliable writers through one transport: the segments of different messages interleave on the wire, every message
// still gets its own sequence number and is reassembled exactly (seeded change C14/m6: two concurrent writers could draw the
// same sequence number; their segments then met in one read buffer)

type ConcCase struct {
	Writers   int `json:"writers"`
	PerWriter int `json:"per_writer"`
	Segs      int `json:"segs"` // segments per message (2..5)
}

func runConc(c ConcCase, k *ev.Case) *ev.Failure {
	a, b := fakequic.Pair(nil)
	ta, err := tquic.New(tquic.Config{Connection: a})
	if err != nil {
		return ev.Failf("harness", "quic.New: %v", err)
	}
	tb, err := tquic.New(tquic.Config{Connection: b})
	if err != nil {
		return ev.Failf("harness", "quic.New: %v", err)
	}
	defer ta.Close()
	defer tb.Close()
	ua, _ := ta.AsUnreliable()
	ub, _ := tb.AsUnreliable()
	total := c.Writers * c.PerWriter
	want := map[string]bool{}
	bodies := make([][][]byte, c.Writers)
	for w := 0; w < c.Writers; w++ {
		for i := 0; i < c.PerWriter; i++ {
			m := body(w*1000+i, c.Segs*P-7-w)
			bodies[w] = append(bodies[w], m)
			want[string(m)] = true
		}
	}
	var got [][]byte
	done := make(chan struct{})
	go func() {
		defer close(done)
		for len(got) < total {
			m, err := ub.Read()
			if err != nil {
				return
			}
			got = append(got, m)
		}
	}()
	var wg sync.WaitGroup
	var werr error
	var wmu sync.Mutex
	for w := 0; w < c.Writers; w++ {
		wg.Add(1)
		go func(w int) {
			defer wg.Done()
			for _, m := range bodies[w] {
				if err := ua.Write(m); err != nil {
					wmu.Lock()
					werr = err
					wmu.Unlock()
					return
				}
			}
		}(w)
	}
	wg.Wait()
	if werr != nil {
		return ev.Failf("C14.4 sender-refused", "concurrent unreliable Write: %v", werr)
	}
	select {
	case <-done:
	case <-time.After(3 * time.Second):
	}
	tb.Close()
	<-done
	seen := map[string]int{}
	for _, m := range got {
		if !want[string(m)] {
			return ev.Failf("C14.1 mixed-message", "%d writers x %d messages of %d segments over a loss-free link: a %d-byte message was handed up that nobody sent (segments of different messages met in one buffer)", c.Writers, c.PerWriter, c.Segs, len(m))
		}
		seen[string(m)]++
		if seen[string(m)] > 1 {
			return ev.Failf("C14.2 duplicate", "a message was handed up twice")
		}
	}
	if len(got) != total {
		return ev.Failf("C14.1 not-reassembled", "%d writers x %d messages of %d segments over a loss-free in-order link: %d of %d messages were handed up", c.Writers, c.PerWriter, c.Segs, len(got), total)
	}
	k.NonTrivial(ev.JSON(c))
	k.Sample(func() any { return c })
	return nil
}

var subConc = ev.Sub[ConcCase]{Name: "concurrent-writers", Q: 30, T: 600,
	Gen: func(t *rapid.T) ConcCase {
		return ConcCase{Writers: rapid.SampledFrom([]int{2, 4, 8, 16}).Draw(t, "writers"), PerWriter: rapid.IntRange(5, 60).Draw(t, "per"), Segs: rapid.IntRange(2, 5).Draw(t, "segs")}
	}, Run: runConc}

func TestConcurrentWriters(t *testing.T) { subConc.Check(t) }
