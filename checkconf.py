# Per-property configuration of the ./check driver.
# groups: test binaries to build and run; shards: processes per tier (each gets its own rapid seed).

def g(name, pkg, q=4, t=16, **kw):
    d = {"name": name, "pkg": pkg, "shards": {"quick": q, "thorough": t}}
    d.update(kw)
    return d

PROPS = {
    "C01": {
        "level": "exploration",
        "groups": [g("main", "c01", q=12, t=32, run="^Test(Regress|Known.*|Prop)$", gomaxprocs=[1, 2, 4, 16])],
        "timeout": {"quick": 300, "thorough": 1800},
        "rule": ("generated: codec{proto,json} x QoS{unreliable,reliable,partial} x flush policy{none,interval 1-20ms,size 0-64B,interval-or-size,immediate} "
                 "x 0-3 pre-registered data ids (aliases in the open response: all/some/none) x 1-4 concurrent writer programs of up to 25 ops "
                 "(write 0-4 points with payload sizes 0..64KiB to pooled or fresh ids, flush, yield, sleep) x broker ack plan {immediate,batched,reordered,"
                 "duplicated} x alias assignment {never,first sight,later,partial} x result codes (success or any failure code); then Close. "
                 "Oracle: broker ledger decoded through the alias table the broker itself published == accepted multiset, per writer/id order, seq 1..N, "
                 "close totals, no chunk after close request, send hook == transmitted content once, ack hook once with the broker's code, DataIDs list. "
                 "Non-trivial = >=2 chunks and (alias substituted in a later chunk, or >=2 writers, or explicit Flush under a cutting policy, or batched/"
                 "reordered acks); distinct by case hash."),
        "assumptions": ["sim link is loss-free FIFO per direction", "hooks are matched 200 ms after Close returned so late is told apart from lost",
                        "result codes 2 (NormalClosure, wire alias of Succeeded) and 30 (TooShortPingInterval, C11's finding) are not sent by the scripted broker"],
    },
    "C20": {
        "level": "exploration",
        "groups": [g("main", "c20", q=8, t=32, run="^Test(Regress|Single|Concurrent|Interval)$", gomaxprocs=[4, 1, 2, 16])],
        "timeout": {"quick": 300, "thorough": 1800},
        "rule": ("generated: (single) one goroutine, deterministic policy {none, size n in {0,1,7,16,40,64}, immediate} x programs of up to 30 ops "
                 "{write 0-3 points with payload sizes straddling the threshold and zero-length payloads over 6 data ids, flush, flush with an already "
                 "cancelled context, state snapshot, wait}; oracle = predicted chunk partition (each cancelled flush may or may not cut: all 2^k "
                 "predictions tried), barrier, conservation, no early transmission, no empty chunk. (concurrent) 2-4 such programs under any policy: "
                 "barrier per goroutine, conservation bound, no empty chunk. (interval) interval / interval-or-size policies: latency from Write "
                 "return to arrival <= interval + 2 s slack. Non-trivial = a write crossing the threshold with earlier data buffered, a state action "
                 "right after a write, or flushes from concurrent goroutines; distinct by case hash."),
        "assumptions": ["broker acknowledges every chunk immediately", "a Flush with an already cancelled context may legitimately cut or not cut (Go select picks at random); both are accepted",
                        "interval latency is judged with 2 s slack; a miss is reported only if it exceeds interval + slack"],
    },
    "C17": {
        "level": "exploration",
        "groups": [g("main", "c17", q=4, t=16, run="^Test(Regress|Grid|RoundTrip|KeyValues|Binary|Derive|DialConfig)$")],
        "timeout": {"quick": 300, "thorough": 1500},
        "rule": ("generated: (a) the exhaustive grid encoding x compression type x level{nil,0..9} x window{nil,0,1,8,15,32} x reconnect x 16 "
                 "group-field combinations through 4 carriers (key/value map, WebSocket URL query, WebTransport URL query, QUIC binary); "
                 "(b) random valid sets with arbitrary UTF-8 ids; (c) arbitrary key/value lists (known keys with hostile values, unknown, "
                 "case-variant, empty and duplicated keys, invalid UTF-8) per carrier; (d) arbitrary and mutated byte strings for the binary form; "
                 "(e) parameter sets x 2-4 arbitrary base configs. Non-trivial = a round-trip cell, an arbitrary input that is ACCEPTED "
                 "(exercises the faithful-reading oracle), or a derive case naming type+level+window; distinct by carrier+content hash."),
        "assumptions": ["a value 'null' for an integer field is JSON null and counts as the field being absent",
                        "keys that differ from a known key only by letter case are matched by encoding/json; no demand is made on them",
                        "the plain key/value map has no format of its own: structural rejection (empty/duplicate key) is only demanded of the URL and binary carriers"],
    },
}
