// Package msggen builds iSCP messages by reflection over package message, driven by a Chooser
// (random via rapid, or the exhaustive "one field non-zero" grid), and provides the independent
// canonical form the codecs are documented to produce.
package msggen

import (
	"fmt"
	"go/ast"
	"go/parser"
	"go/token"
	"path/filepath"
	"reflect"
	"sort"
	"strings"
	"time"

	"github.com/aptpod/iscp-go/message"
	"github.com/google/uuid"
)

// Registry is every message type of the protocol (pointer-to-struct types).
var Registry = []message.Message{
	&message.ConnectRequest{}, &message.ConnectResponse{}, &message.Disconnect{}, &message.Ping{}, &message.Pong{},
	&message.UpstreamOpenRequest{}, &message.UpstreamOpenResponse{}, &message.UpstreamResumeRequest{}, &message.UpstreamResumeResponse{},
	&message.UpstreamCloseRequest{}, &message.UpstreamCloseResponse{},
	&message.DownstreamOpenRequest{}, &message.DownstreamOpenResponse{}, &message.DownstreamResumeRequest{}, &message.DownstreamResumeResponse{},
	&message.DownstreamCloseRequest{}, &message.DownstreamCloseResponse{},
	&message.UpstreamChunk{}, &message.UpstreamChunkAck{}, &message.DownstreamChunk{}, &message.DownstreamChunkAck{}, &message.DownstreamChunkAckComplete{},
	&message.UpstreamMetadata{}, &message.UpstreamMetadataAck{}, &message.DownstreamMetadata{}, &message.DownstreamMetadataAck{},
	&message.UpstreamCall{}, &message.UpstreamCallAck{}, &message.DownstreamCall{},
}

var (
	tDuration  = reflect.TypeOf(time.Duration(0))
	tTime      = reflect.TypeOf(time.Time{})
	tUUID      = reflect.TypeOf(uuid.UUID{})
	tResult    = reflect.TypeOf(message.ResultCode(0))
	tQoS       = reflect.TypeOf(message.QoS(0))
	tBytes     = reflect.TypeOf([]byte(nil))
	tMetadata  = reflect.TypeOf((*message.Metadata)(nil)).Elem()
	tSendable  = reflect.TypeOf((*message.SendableMetadata)(nil)).Elem()
	tUpOrAlias = reflect.TypeOf((*message.UpstreamOrAlias)(nil)).Elem()
	tIDOrAlias = reflect.TypeOf((*message.DataIDOrAlias)(nil)).Elem()
)

// Variants lists the implementers of each interface-typed field.
var Variants = map[reflect.Type][]reflect.Type{
	tMetadata: {
		reflect.TypeOf(&message.BaseTime{}), reflect.TypeOf(&message.UpstreamOpen{}), reflect.TypeOf(&message.UpstreamAbnormalClose{}),
		reflect.TypeOf(&message.UpstreamResume{}), reflect.TypeOf(&message.UpstreamNormalClose{}), reflect.TypeOf(&message.DownstreamOpen{}),
		reflect.TypeOf(&message.DownstreamAbnormalClose{}), reflect.TypeOf(&message.DownstreamResume{}), reflect.TypeOf(&message.DownstreamNormalClose{}),
	},
	tSendable:  {reflect.TypeOf(&message.BaseTime{})},
	tUpOrAlias: {reflect.TypeOf(&message.UpstreamInfo{}), reflect.TypeOf(message.UpstreamAlias(0))},
	tIDOrAlias: {reflect.TypeOf(&message.DataID{}), reflect.TypeOf(message.DataIDAlias(0))},
}

// ResultCodes / QoSValues are the library constants.
var (
	ResultCodes = func() []message.ResultCode {
		var r []message.ResultCode
		for c := message.ResultCodeSucceeded; c <= message.ResultCodeSessionCannotClosed; c++ {
			r = append(r, c)
		}
		return r
	}()
	QoSValues = []message.QoS{message.QoSUnreliable, message.QoSReliable, message.QoSPartial}
)

// Kind classifies a leaf for the chooser.
type Kind int

const (
	KString Kind = iota
	KBytes
	KUint
	KBool
	KDurationSec // wire: unsigned 32-bit seconds
	KDurationMs  // wire: unsigned 32-bit milliseconds
	KDurationNs  // wire: 64-bit nanoseconds (wraps)
	KTimeOrZero  // ServerTime: zero means Unix epoch
	KTime        // BaseTime: int64 nanoseconds since the epoch
	KUUID
	KResultCode
	KQoS
)

// Chooser makes every decision of a build.
type Chooser interface {
	Leaf(path string, kind Kind, typ reflect.Type) reflect.Value
	Len(path string) int            // slices and maps
	Present(path string) bool       // optional pointers (extension fields)
	Variant(path string, n int) int // interface fields
}

func leafKind(path string, t reflect.Type) (Kind, bool) {
	switch t {
	case tDuration:
		switch {
		case strings.HasSuffix(path, ".PingInterval"), strings.HasSuffix(path, ".PingTimeout"), strings.HasSuffix(path, ".ExpiryInterval"):
			return KDurationSec, true
		case strings.HasSuffix(path, ".AckInterval"):
			return KDurationMs, true
		default:
			return KDurationNs, true
		}
	case tTime:
		if strings.HasSuffix(path, ".ServerTime") {
			return KTimeOrZero, true
		}
		return KTime, true
	case tUUID:
		return KUUID, true
	case tResult:
		return KResultCode, true
	case tQoS:
		return KQoS, true
	case tBytes:
		return KBytes, true
	}
	switch t.Kind() {
	case reflect.String:
		return KString, true
	case reflect.Bool:
		return KBool, true
	case reflect.Uint8, reflect.Uint16, reflect.Uint32, reflect.Uint64, reflect.Int32, reflect.Int64, reflect.Int, reflect.Uint:
		return KUint, true
	}
	return 0, false
}

func optionalPointer(path string) bool {
	return strings.HasSuffix(path, ".ExtensionFields") || strings.HasSuffix(path, ".Intdash")
}

// Build constructs a value of type t.
func Build(t reflect.Type, path string, c Chooser) reflect.Value {
	if k, ok := leafKind(path, t); ok {
		v := c.Leaf(path, k, t)
		if v.Type() != t {
			v = v.Convert(t)
		}
		return v
	}
	switch t.Kind() {
	case reflect.Ptr:
		if optionalPointer(path) && !c.Present(path) {
			return reflect.Zero(t)
		}
		p := reflect.New(t.Elem())
		p.Elem().Set(Build(t.Elem(), path, c))
		return p
	case reflect.Struct:
		v := reflect.New(t).Elem()
		for i := 0; i < t.NumField(); i++ {
			f := t.Field(i)
			name := f.Name
			v.Field(i).Set(Build(f.Type, path+"."+name, c))
		}
		return v
	case reflect.Slice:
		n := c.Len(path)
		if n < 0 {
			return reflect.Zero(t) // nil slice
		}
		s := reflect.MakeSlice(t, 0, n)
		for i := 0; i < n; i++ {
			s = reflect.Append(s, Build(t.Elem(), path+"[]", c))
		}
		return s
	case reflect.Map:
		n := c.Len(path)
		if n < 0 {
			return reflect.Zero(t)
		}
		m := reflect.MakeMap(t)
		for i := 0; i < n; i++ {
			k := Build(t.Key(), path+"{key}", c)
			m.SetMapIndex(k, Build(t.Elem(), path+"{}", c))
		}
		return m
	case reflect.Interface:
		vs := Variants[t]
		if len(vs) == 0 {
			panic("msggen: no variants for interface " + t.String() + " at " + path)
		}
		vt := vs[c.Variant(path, len(vs))]
		name := vt.String()
		if i := strings.LastIndex(name, "."); i >= 0 {
			name = name[i+1:]
		}
		inner := Build(vt, path+"<"+name+">", c)
		v := reflect.New(t).Elem()
		v.Set(inner)
		return v
	}
	panic(fmt.Sprintf("msggen: unsupported type %v at %s", t, path))
}

// BuildMessage builds a message of the same type as proto.
func BuildMessage(proto message.Message, c Chooser) message.Message {
	t := reflect.TypeOf(proto)
	name := t.Elem().Name()
	return Build(t, name, c).Interface().(message.Message)
}

// TypeName returns the short name of a message.
func TypeName(m message.Message) string { return reflect.TypeOf(m).Elem().Name() }

// ---------------------------------------------------------------------------------------------
// canonical form (written from the documented wire resolutions, independent of the converters)

// Canon converts a message into a generic tree in canonical form:
// durations at wire resolution, times as UTC nanoseconds (zero server time = Unix epoch),
// nil and empty collections/byte strings identical, NormalClosure == Succeeded.
// checkUTC: additionally verify every time value carries the UTC location (decoded side).
func Canon(m message.Message, checkUTC bool) (tree any, err error) {
	defer func() {
		if r := recover(); r != nil {
			err = fmt.Errorf("%v", r)
		}
	}()
	return canon(reflect.ValueOf(m), TypeName(m), checkUTC), nil
}

func canon(v reflect.Value, path string, checkUTC bool) any {
	t := v.Type()
	if k, ok := leafKind(path, t); ok {
		switch k {
		case KDurationSec:
			return int64(time.Duration(v.Int()) / time.Second)
		case KDurationMs:
			return int64(time.Duration(v.Int()) / time.Millisecond)
		case KDurationNs:
			return v.Int()
		case KTimeOrZero, KTime:
			tm := v.Interface().(time.Time)
			if checkUTC && tm.Location() != time.UTC {
				panic(fmt.Sprintf("%s: decoded time is not in UTC (%v)", path, tm.Location()))
			}
			if k == KTimeOrZero && tm.IsZero() {
				return int64(0)
			}
			return tm.UnixNano()
		case KUUID:
			return v.Interface().(uuid.UUID).String()
		case KResultCode:
			rc := message.ResultCode(v.Int())
			if rc == message.ResultCodeNormalClosure {
				rc = message.ResultCodeSucceeded
			}
			return int64(rc)
		case KQoS:
			return int64(v.Uint())
		case KBytes:
			return string(v.Bytes()) // nil == empty
		case KString:
			return v.String()
		case KBool:
			return v.Bool()
		case KUint:
			switch t.Kind() {
			case reflect.Int, reflect.Int32, reflect.Int64:
				return v.Int()
			}
			return v.Uint()
		}
	}
	switch t.Kind() {
	case reflect.Ptr:
		if v.IsNil() {
			return nil
		}
		return canon(v.Elem(), path, checkUTC)
	case reflect.Struct:
		m := map[string]any{}
		for i := 0; i < t.NumField(); i++ {
			m[t.Field(i).Name] = canon(v.Field(i), path+"."+t.Field(i).Name, checkUTC)
		}
		return m
	case reflect.Slice:
		res := make([]any, 0, v.Len())
		for i := 0; i < v.Len(); i++ {
			res = append(res, canon(v.Index(i), path+"[]", checkUTC))
		}
		return res
	case reflect.Map:
		res := map[string]any{}
		for _, k := range v.MapKeys() {
			res[fmt.Sprint(k.Interface())] = canon(v.MapIndex(k), path+"{}", checkUTC)
		}
		return res
	case reflect.Interface:
		if v.IsNil() {
			return nil
		}
		inner := v.Elem()
		name := inner.Type().String()
		if i := strings.LastIndex(name, "."); i >= 0 {
			name = name[i+1:]
		}
		return map[string]any{"<" + name + ">": canon(inner, path+"<"+name+">", checkUTC)}
	case reflect.Uint32:
		return v.Uint() // UpstreamAlias / DataIDAlias
	}
	panic(fmt.Sprintf("canon: unsupported %v at %s", t, path))
}

// Diff returns a short description of the first difference between two canonical trees ("" if equal).
func Diff(a, b any, path string) string {
	switch x := a.(type) {
	case map[string]any:
		y, ok := b.(map[string]any)
		if !ok {
			return fmt.Sprintf("%s: %T vs %T", path, a, b)
		}
		keys := map[string]bool{}
		for k := range x {
			keys[k] = true
		}
		for k := range y {
			keys[k] = true
		}
		ks := make([]string, 0, len(keys))
		for k := range keys {
			ks = append(ks, k)
		}
		sort.Strings(ks)
		for _, k := range ks {
			xv, xo := x[k]
			yv, yo := y[k]
			if !xo || !yo {
				return fmt.Sprintf("%s.%s: present %v vs %v", path, k, xo, yo)
			}
			if d := Diff(xv, yv, path+"."+k); d != "" {
				return d
			}
		}
		return ""
	case []any:
		y, ok := b.([]any)
		if !ok {
			return fmt.Sprintf("%s: %T vs %T", path, a, b)
		}
		if len(x) != len(y) {
			return fmt.Sprintf("%s: length %d vs %d", path, len(x), len(y))
		}
		for i := range x {
			if d := Diff(x[i], y[i], fmt.Sprintf("%s[%d]", path, i)); d != "" {
				return d
			}
		}
		return ""
	default:
		if !reflect.DeepEqual(a, b) {
			return fmt.Sprintf("%s: %#v vs %#v", path, trunc(a), trunc(b))
		}
		return ""
	}
}

func trunc(v any) any {
	if s, ok := v.(string); ok && len(s) > 60 {
		return s[:60] + fmt.Sprintf("...(%d bytes)", len(s))
	}
	return v
}

// ---------------------------------------------------------------------------------------------
// self check of the registry against the package source

// SourceInventory parses /repo/message and returns the names of all message types (types with an
// isMessage method), all implementers of the variant interfaces and all ResultCode / QoS constants.
func SourceInventory(dir string) (msgs []string, variants map[string][]string, resultCodes, qos []string, err error) {
	fset := token.NewFileSet()
	files, _ := filepath.Glob(filepath.Join(dir, "*.go"))
	variants = map[string][]string{}
	marker := map[string]string{"isMetadata": "Metadata", "isSendableMetadata": "SendableMetadata", "isUpstreamOrAlias": "UpstreamOrAlias", "isDataIDOrAlias": "DataIDOrAlias"}
	for _, f := range files {
		if strings.HasSuffix(f, "_test.go") {
			continue
		}
		af, perr := parser.ParseFile(fset, f, nil, 0)
		if perr != nil {
			return nil, nil, nil, nil, perr
		}
		for _, d := range af.Decls {
			switch x := d.(type) {
			case *ast.FuncDecl:
				if x.Recv == nil || len(x.Recv.List) != 1 {
					continue
				}
				recv := ""
				switch r := x.Recv.List[0].Type.(type) {
				case *ast.StarExpr:
					if id, ok := r.X.(*ast.Ident); ok {
						recv = id.Name
					}
				case *ast.Ident:
					recv = r.Name
				}
				if x.Name.Name == "isMessage" {
					msgs = append(msgs, recv)
				}
				if iface, ok := marker[x.Name.Name]; ok {
					variants[iface] = append(variants[iface], recv)
				}
			case *ast.GenDecl:
				if x.Tok != token.CONST {
					continue
				}
				cur := ""
				for _, s := range x.Specs {
					vs := s.(*ast.ValueSpec)
					if vs.Type != nil {
						if id, ok := vs.Type.(*ast.Ident); ok {
							cur = id.Name
						} else {
							cur = ""
						}
					} else if len(vs.Values) > 0 {
						cur = ""
					}
					for _, n := range vs.Names {
						if n.Name == "_" {
							continue
						}
						if cur == "ResultCode" {
							resultCodes = append(resultCodes, n.Name)
						}
						if cur == "QoS" {
							qos = append(qos, n.Name)
						}
					}
				}
			}
		}
	}
	sort.Strings(msgs)
	for k := range variants {
		sort.Strings(variants[k])
	}
	return
}
