// Package c11: every message survives encode/decode in both encodings, field by field; byte counts;
// totality of the result-code / QoS mappings.
package c11

import (
	"bytes"
	"fmt"
	"math"
	"reflect"
	"sort"
	"strings"
	"testing"
	"time"

	"github.com/aptpod/iscp-go/encoding"
	ejson "github.com/aptpod/iscp-go/encoding/json"
	eproto "github.com/aptpod/iscp-go/encoding/protobuf"
	"github.com/aptpod/iscp-go/message"
	autogen "github.com/aptpod/iscp-proto/gen/gogofast/iscp2/v1"
	"github.com/google/uuid"
	"pgregory.net/rapid"

	"verifharness/ev"
	"verifharness/msggen"
)

func TestMain(m *testing.M) { ev.MainExit(m, "C11") }

var codecs = []struct {
	name string
	enc  encoding.Encoding
}{{"protobuf", eproto.NewEncoding()}, {"json", ejson.NewEncoding()}}

// ---------------------------------------------------------------------------------------------
// self check: the generator knows every message type, variant and enum constant of the package

func TestSelfRegistry(t *testing.T) {
	msgs, variants, rcs, qos, err := msggen.SourceInventory("/repo/message")
	if err != nil {
		t.Fatalf("cannot parse /repo/message: %v", err)
	}
	var reg []string
	for _, m := range msggen.Registry {
		reg = append(reg, msggen.TypeName(m))
	}
	sort.Strings(reg)
	if fmt.Sprint(reg) != fmt.Sprint(msgs) {
		t.Fatalf("message registry out of date:\n generator: %v\n source:    %v", reg, msgs)
	}
	want := map[string]int{"Metadata": 9, "SendableMetadata": 1, "UpstreamOrAlias": 2, "DataIDOrAlias": 2}
	for k, n := range want {
		if len(variants[k]) != n {
			t.Fatalf("interface %s has implementers %v in the source, generator knows %d", k, variants[k], n)
		}
	}
	if len(rcs) != len(msggen.ResultCodes) {
		t.Fatalf("source declares %d result codes, generator knows %d", len(rcs), len(msggen.ResultCodes))
	}
	if len(qos) != len(msggen.QoSValues) {
		t.Fatalf("source declares %d QoS values, generator knows %d", len(qos), len(msggen.QoSValues))
	}
}

// ---------------------------------------------------------------------------------------------
// recorded chooser: the generated case is the list of decisions, so that it is replayable

// Decision is one recorded choice.
type Decision struct {
	Path string `json:"p"`
	Kind string `json:"k"`           // leaf | len | present | variant
	S    string `json:"s,omitempty"` // string / bytes (hex for bytes)
	I    int64  `json:"i,omitempty"`
	U    uint64 `json:"u,omitempty"`
	B    bool   `json:"b,omitempty"`
	Zone int    `json:"zone,omitempty"` // time zone offset seconds for time leaves
}

// Case is a message type plus the decisions that build it.
type Case struct {
	Type      string     `json:"type"`
	Decisions []Decision `json:"decisions"`
	Cell      string     `json:"cell,omitempty"`
}

func protoOf(name string) message.Message {
	for _, m := range msggen.Registry {
		if msggen.TypeName(m) == name {
			return m
		}
	}
	return nil
}

// replayChooser replays recorded decisions in order.
type replayChooser struct {
	d []Decision
	i int
}

func (r *replayChooser) next(path, kind string) Decision {
	if r.i >= len(r.d) {
		panic("replay: out of decisions at " + path)
	}
	d := r.d[r.i]
	r.i++
	if d.Path != path || d.Kind != kind {
		panic(fmt.Sprintf("replay: expected %s/%s, recorded %s/%s", path, kind, d.Path, d.Kind))
	}
	return d
}

func (r *replayChooser) Leaf(path string, k msggen.Kind, t reflect.Type) reflect.Value {
	return decodeLeaf(r.next(path, "leaf"), k, t)
}
func (r *replayChooser) Len(path string) int            { return int(r.next(path, "len").I) }
func (r *replayChooser) Present(path string) bool       { return r.next(path, "present").B }
func (r *replayChooser) Variant(path string, n int) int { return int(r.next(path, "variant").I) }

func decodeLeaf(d Decision, k msggen.Kind, t reflect.Type) reflect.Value {
	switch k {
	case msggen.KString:
		return reflect.ValueOf(d.S)
	case msggen.KBytes:
		if d.B {
			return reflect.ValueOf([]byte(nil))
		}
		return reflect.ValueOf([]byte(d.S))
	case msggen.KUint:
		v := reflect.New(t).Elem()
		switch t.Kind() {
		case reflect.Int, reflect.Int32, reflect.Int64:
			v.SetInt(d.I)
		default:
			v.SetUint(d.U)
		}
		return v
	case msggen.KBool:
		return reflect.ValueOf(d.B)
	case msggen.KDurationSec, msggen.KDurationMs, msggen.KDurationNs:
		return reflect.ValueOf(time.Duration(d.I))
	case msggen.KTimeOrZero, msggen.KTime:
		if d.B {
			return reflect.ValueOf(time.Time{})
		}
		tm := time.Unix(0, d.I)
		if d.Zone != 0 {
			tm = tm.In(time.FixedZone("z", d.Zone))
		} else {
			tm = tm.UTC()
		}
		return reflect.ValueOf(tm)
	case msggen.KUUID:
		var u uuid.UUID
		copy(u[:], d.S)
		return reflect.ValueOf(u)
	case msggen.KResultCode:
		return reflect.ValueOf(message.ResultCode(d.I))
	case msggen.KQoS:
		return reflect.ValueOf(message.QoS(d.I))
	}
	panic("decodeLeaf: unknown kind")
}

func (c Case) build() (m message.Message, err error) {
	defer func() {
		if r := recover(); r != nil {
			err = fmt.Errorf("%v", r)
		}
	}()
	p := protoOf(c.Type)
	if p == nil {
		return nil, fmt.Errorf("unknown message type %q", c.Type)
	}
	return msggen.BuildMessage(p, &replayChooser{d: c.Decisions}), nil
}

// ---------------------------------------------------------------------------------------------
// random chooser (records its decisions)

const (
	minTimeNs = -9214560000000000000 // 1678
	maxTimeNs = 9214560000000000000  // 2261
)

type randChooser struct {
	t   *rapid.T
	rec []Decision
}

func (r *randChooser) Leaf(path string, k msggen.Kind, t reflect.Type) reflect.Value {
	d := Decision{Path: path, Kind: "leaf"}
	rt := r.t
	switch k {
	case msggen.KString:
		switch rapid.IntRange(0, 5).Draw(rt, "strkind") {
		case 0:
			d.S = ""
		case 1:
			d.S = rapid.StringMatching(`[a-z0-9/_.:-]{1,16}`).Draw(rt, "ascii")
		case 2, 3:
			d.S = rapid.String().Draw(rt, "utf8")
		case 4:
			d.S = rapid.SampledFrom([]string{"日本語のテキスト", "#", "a:b", "\u0000", "\"quoted\"", "</script>", "\\", " ", "😀😀", " "}).Draw(rt, "special")
		default:
			d.S = strings.Repeat(rapid.StringN(1, 3, 12).Draw(rt, "unit"), rapid.IntRange(1, 400).Draw(rt, "rep"))
		}
	case msggen.KBytes:
		switch rapid.IntRange(0, 6).Draw(rt, "byteskind") {
		case 0:
			d.B = true // nil
		case 1:
			d.S = ""
		case 2:
			n := rapid.SampledFrom([]int{255, 256, 4095, 4096, 65535, 65536}).Draw(rt, "biglen")
			d.S = string(bytes.Repeat([]byte{byte(n)}, n))
		default:
			d.S = string(rapid.SliceOfN(rapid.Byte(), 1, 40).Draw(rt, "bytes"))
		}
	case msggen.KUint:
		bits := t.Bits()
		switch t.Kind() {
		case reflect.Int, reflect.Int32, reflect.Int64:
			d.I = rapid.Int64().Draw(rt, "int")
			if bits == 32 {
				d.I = int64(int32(d.I))
			}
		default:
			max := uint64(math.MaxUint64)
			if bits < 64 {
				max = 1<<uint(bits) - 1
			}
			switch rapid.IntRange(0, 4).Draw(rt, "uintkind") {
			case 0:
				d.U = 0
			case 1:
				d.U = max
			case 2:
				d.U = uint64(rapid.IntRange(0, 300).Draw(rt, "small"))
				if d.U > max {
					d.U = max
				}
			default:
				d.U = rapid.Uint64Range(0, max).Draw(rt, "uint")
			}
		}
	case msggen.KBool:
		d.B = rapid.Bool().Draw(rt, "bool")
	case msggen.KDurationSec:
		secs := rapid.OneOf(rapid.Int64Range(0, 120), rapid.Int64Range(0, math.MaxUint32), rapid.Just(int64(math.MaxUint32))).Draw(rt, "secs")
		frac := int64(0)
		if secs < math.MaxUint32 {
			frac = rapid.OneOf(rapid.Just(int64(0)), rapid.Int64Range(0, 999_000_000)).Draw(rt, "frac")
		}
		d.I = secs*int64(time.Second) + frac
	case msggen.KDurationMs:
		ms := rapid.OneOf(rapid.Int64Range(0, 5000), rapid.Int64Range(0, math.MaxUint32), rapid.Just(int64(math.MaxUint32))).Draw(rt, "ms")
		frac := rapid.OneOf(rapid.Just(int64(0)), rapid.Int64Range(0, 999_999)).Draw(rt, "fracns")
		d.I = ms*int64(time.Millisecond) + frac
	case msggen.KDurationNs:
		d.I = rapid.OneOf(rapid.Int64Range(0, 1e12), rapid.Int64(), rapid.SampledFrom([]int64{0, -1, math.MaxInt64, math.MinInt64})).Draw(rt, "ns")
	case msggen.KTimeOrZero, msggen.KTime:
		if k == msggen.KTimeOrZero && rapid.IntRange(0, 3).Draw(rt, "zerotime") == 0 {
			d.B = true
			break
		}
		d.I = rapid.OneOf(rapid.Int64Range(minTimeNs, maxTimeNs), rapid.Int64Range(1.6e18, 1.8e18), rapid.SampledFrom([]int64{0, 1, -1, minTimeNs, maxTimeNs})).Draw(rt, "unixns")
		d.Zone = rapid.SampledFrom([]int{0, 0, 9 * 3600, -5 * 3600, 5*3600 + 1800}).Draw(rt, "zone")
	case msggen.KUUID:
		d.S = string(rapid.SliceOfN(rapid.Byte(), 16, 16).Draw(rt, "uuid"))
	case msggen.KResultCode:
		d.I = int64(rapid.SampledFrom(msggen.ResultCodes).Draw(rt, "rc"))
	case msggen.KQoS:
		d.I = int64(rapid.SampledFrom(msggen.QoSValues).Draw(rt, "qos"))
	}
	r.rec = append(r.rec, d)
	return decodeLeaf(d, k, t)
}

func (r *randChooser) Len(path string) int {
	n := rapid.SampledFrom([]int{-1, 0, 1, 1, 2, 3, 5}).Draw(r.t, "len")
	r.rec = append(r.rec, Decision{Path: path, Kind: "len", I: int64(n)})
	return n
}

func (r *randChooser) Present(path string) bool {
	b := rapid.Bool().Draw(r.t, "present")
	r.rec = append(r.rec, Decision{Path: path, Kind: "present", B: b})
	return b
}

func (r *randChooser) Variant(path string, n int) int {
	i := rapid.IntRange(0, n-1).Draw(r.t, "variant")
	r.rec = append(r.rec, Decision{Path: path, Kind: "variant", I: int64(i)})
	return i
}

// ---------------------------------------------------------------------------------------------
// the oracle

func checkMessage(m message.Message) *ev.Failure {
	want, err := msggen.Canon(m, false)
	if err != nil {
		return ev.Failf("harness", "canon of input: %v", err)
	}
	var trees []any
	for _, c := range codecs {
		var buf bytes.Buffer
		n1, err := c.enc.EncodeTo(&buf, m)
		if err != nil {
			return ev.Failf("C11.1 encode", "%s cannot encode a valid %s: %v", c.name, msggen.TypeName(m), err)
		}
		if n1 != buf.Len() {
			return ev.Failf("C11.3 byte-count", "%s EncodeTo reports %d bytes for %s, produced %d", c.name, n1, msggen.TypeName(m), buf.Len())
		}
		raw := append([]byte(nil), buf.Bytes()...)
		// history: the codec has just been offered input it rejects (a cut-off frame, a damaged frame). The round trip must not
		// depend on what the decoder saw before (seeded change C11/m2: a pooled decode buffer kept the rejected bytes).
		if len(raw) > 1 {
			c.enc.DecodeFrom(bytes.NewReader(raw[:len(raw)/2]))
			bad := append([]byte(nil), raw...)
			bad[len(bad)/3] ^= 0xa5
			bad[len(bad)-1] ^= 0xff
			c.enc.DecodeFrom(bytes.NewReader(bad))
			c.enc.DecodeFrom(bytes.NewReader([]byte{0xff, 0xff, 0xff, 0xff, 0x0f, 0x7b}))
		}
		n2, m2, err := c.enc.DecodeFrom(bytes.NewReader(raw))
		if err != nil {
			return ev.Failf("C11.1 decode", "%s cannot decode its own encoding of %s: %v", c.name, msggen.TypeName(m), err)
		}
		if n2 != len(raw) {
			return ev.Failf("C11.3 byte-count", "%s DecodeFrom reports %d bytes consumed for %s, input has %d", c.name, n2, msggen.TypeName(m), len(raw))
		}
		if reflect.TypeOf(m2) != reflect.TypeOf(m) {
			return ev.Failf("C11.1 type", "%s decodes %T as %T", c.name, m, m2)
		}
		got, err := msggen.Canon(m2, true)
		if err != nil {
			return ev.Failf("C11.1 canonical-form", "%s: %v", c.name, err)
		}
		if d := msggen.Diff(want, got, msggen.TypeName(m)); d != "" {
			return ev.Failf("C11.1 round-trip", "%s: sent vs decoded differ at %s", c.name, d)
		}
		trees = append(trees, got)
	}
	if d := msggen.Diff(trees[0], trees[1], msggen.TypeName(m)); d != "" {
		return ev.Failf("C11.2 encodings-disagree", "protobuf vs json decode differently at %s", d)
	}
	return nil
}

func runCase(c Case, k *ev.Case) *ev.Failure {
	m, err := c.build()
	if err != nil {
		return ev.Failf("harness", "cannot build case: %v", err)
	}
	k.Label("type=" + c.Type)
	nz := 0
	for _, d := range c.Decisions {
		if d.Kind == "leaf" && (d.S != "" || d.I != 0 || d.U != 0 || d.B) {
			nz++
		}
	}
	if nz >= 2 || c.Cell != "" {
		k.NonTrivial(ev.JSON(c))
	}
	k.Sample(func() any {
		return map[string]any{"type": c.Type, "cell": c.Cell, "message": fmt.Sprintf("%+v", trimMsg(m))}
	})
	return checkMessage(m)
}

func trimMsg(m message.Message) string {
	s := fmt.Sprintf("%+v", m)
	if len(s) > 600 {
		s = s[:600] + "..."
	}
	return s
}

var subRandom = ev.Sub[Case]{Name: "random", Q: 4000, T: 120000,
	Gen: func(t *rapid.T) Case {
		p := msggen.Registry[rapid.IntRange(0, len(msggen.Registry)-1).Draw(t, "type")]
		rc := &randChooser{t: t}
		msggen.BuildMessage(p, rc)
		return Case{Type: msggen.TypeName(p), Decisions: rc.rec}
	}, Run: runCase}

func TestRandom(t *testing.T) { subRandom.Check(t) }

// ---------------------------------------------------------------------------------------------
// exhaustive grid: message type x variant assignment x leaf path x distinguished values

type gridChooser struct {
	variants map[string]int
	target   string
	value    *Decision
	length   int
	absent   map[string]bool // optional pointers absent
	allAbs   bool
	rec      []Decision
	// discovery
	ifaces   []ifacePoint
	leaves   []leafPoint
	optional []string
}

type ifacePoint struct {
	path string
	n    int
}
type leafPoint struct {
	path string
	kind msggen.Kind
	typ  reflect.Type
}

func baseDecision(path string, k msggen.Kind) Decision {
	d := Decision{Path: path, Kind: "leaf"}
	switch k {
	case msggen.KResultCode:
		d.I = int64(message.ResultCodeSucceeded)
	case msggen.KBytes:
		d.B = true
	case msggen.KTimeOrZero:
		d.B = true
	}
	return d
}

func (g *gridChooser) Leaf(path string, k msggen.Kind, t reflect.Type) reflect.Value {
	g.leaves = append(g.leaves, leafPoint{path, k, t})
	d := baseDecision(path, k)
	if path == g.target && g.value != nil {
		d = *g.value
		d.Path, d.Kind = path, "leaf"
	}
	g.rec = append(g.rec, d)
	return decodeLeaf(d, k, t)
}

func (g *gridChooser) Len(path string) int {
	g.rec = append(g.rec, Decision{Path: path, Kind: "len", I: int64(g.length)})
	return g.length
}

func (g *gridChooser) Present(path string) bool {
	g.optional = append(g.optional, path)
	b := !g.allAbs && !g.absent[path]
	g.rec = append(g.rec, Decision{Path: path, Kind: "present", B: b})
	return b
}

func (g *gridChooser) Variant(path string, n int) int {
	g.ifaces = append(g.ifaces, ifacePoint{path, n})
	i := g.variants[path]
	g.rec = append(g.rec, Decision{Path: path, Kind: "variant", I: int64(i)})
	return i
}

func enumVariants(p message.Message, assigned map[string]int, out *[]map[string]int) {
	g := &gridChooser{variants: assigned, length: 1}
	msggen.BuildMessage(p, g)
	for _, ip := range g.ifaces {
		if _, ok := assigned[ip.path]; !ok {
			for i := 0; i < ip.n; i++ {
				next := map[string]int{}
				for k, v := range assigned {
					next[k] = v
				}
				next[ip.path] = i
				enumVariants(p, next, out)
			}
			return
		}
	}
	cp := map[string]int{}
	for k, v := range assigned {
		cp[k] = v
	}
	*out = append(*out, cp)
}

func distinguished(lp leafPoint) []Decision {
	var res []Decision
	switch lp.kind {
	case msggen.KString:
		res = []Decision{{S: "v:" + lp.path}, {S: "日本語✓  \"\\"}}
	case msggen.KBytes:
		res = []Decision{{S: "\x01\x02\x03"}, {S: ""}, {S: "\x00\xff\xfe"}}
	case msggen.KUint:
		switch lp.typ.Kind() {
		case reflect.Int, reflect.Int32, reflect.Int64:
			res = []Decision{{I: 1}, {I: -1}}
		default:
			max := uint64(math.MaxUint64)
			if lp.typ.Bits() < 64 {
				max = 1<<uint(lp.typ.Bits()) - 1
			}
			res = []Decision{{U: 1}, {U: max}, {U: 7}}
		}
	case msggen.KBool:
		res = []Decision{{B: true}}
	case msggen.KDurationSec:
		res = []Decision{{I: int64(3 * time.Second)}, {I: int64(3700 * time.Millisecond)}, {I: int64(999 * time.Millisecond)}, {I: int64(math.MaxUint32) * int64(time.Second)}, {I: int64(90 * time.Minute)}}
	case msggen.KDurationMs:
		res = []Decision{{I: int64(3 * time.Millisecond)}, {I: int64(3700 * time.Microsecond)}, {I: int64(999 * time.Microsecond)}, {I: int64(math.MaxUint32) * int64(time.Millisecond)}, {I: int64(time.Second)}}
	case msggen.KDurationNs:
		res = []Decision{{I: 1}, {I: -1}, {I: math.MaxInt64}, {I: math.MinInt64}, {I: int64(time.Second)}}
	case msggen.KTimeOrZero, msggen.KTime:
		res = []Decision{{I: 1000000000000000123, Zone: 9 * 3600}, {I: 1}, {I: minTimeNs}, {I: maxTimeNs}, {I: -1, Zone: -5 * 3600}}
	case msggen.KUUID:
		res = []Decision{{S: "\x01\x23\x45\x67\x89\xab\xcd\xef\x01\x23\x45\x67\x89\xab\xcd\xef"}, {S: strings.Repeat("\xff", 16)}}
	case msggen.KResultCode:
		for _, rc := range msggen.ResultCodes {
			res = append(res, Decision{I: int64(rc)})
		}
	case msggen.KQoS:
		for _, q := range msggen.QoSValues {
			res = append(res, Decision{I: int64(q)})
		}
	}
	return res
}

// gridCases enumerates every cell.
func gridCases() []Case {
	var cases []Case
	for _, p := range msggen.Registry {
		name := msggen.TypeName(p)
		var assigns []map[string]int
		enumVariants(p, map[string]int{}, &assigns)
		for _, va := range assigns {
			vkey := fmt.Sprint(va)
			// discovery run: all optional pointers present, slices of length 1
			disc := &gridChooser{variants: va, length: 1}
			msggen.BuildMessage(p, disc)
			cases = append(cases, Case{Type: name, Decisions: disc.rec, Cell: vkey + " base"})
			seen := map[string]bool{}
			for _, lp := range disc.leaves {
				if seen[lp.path] {
					continue
				}
				seen[lp.path] = true
				for vi, dv := range distinguished(lp) {
					dv := dv
					g := &gridChooser{variants: va, length: 1, target: lp.path, value: &dv}
					msggen.BuildMessage(p, g)
					cases = append(cases, Case{Type: name, Decisions: g.rec, Cell: fmt.Sprintf("%s %s=#%d", vkey, lp.path, vi)})
				}
			}
			// extension present/absent, collections empty / nil
			oseen := map[string]bool{}
			for _, op := range disc.optional {
				if oseen[op] {
					continue
				}
				oseen[op] = true
				g := &gridChooser{variants: va, length: 1, absent: map[string]bool{op: true}}
				msggen.BuildMessage(p, g)
				cases = append(cases, Case{Type: name, Decisions: g.rec, Cell: vkey + " absent:" + op})
			}
			for _, ln := range []int{0, -1, 2} {
				for _, abs := range []bool{false, true} {
					g := &gridChooser{variants: va, length: ln, allAbs: abs}
					msggen.BuildMessage(p, g)
					cases = append(cases, Case{Type: name, Decisions: g.rec, Cell: fmt.Sprintf("%s len=%d allabsent=%v", vkey, ln, abs)})
				}
			}
		}
	}
	return cases
}

var subGrid = ev.Sub[Case]{Name: "grid", Run: runCase, Gen: func(t *rapid.T) Case { return Case{} }}

func TestGrid(t *testing.T) {
	cases := gridCases()
	failed := 0
	for i, c := range cases {
		if i%ev.NShards() != ev.ShardIndex() {
			continue
		}
		if !subGrid.One(t, c) {
			failed++
			if failed > 5 {
				break
			}
		}
	}
	ev.SetExhaustive("grid", failed == 0)
	if ev.ShardIndex() == 0 {
		ev.SetExtra("grid_cells_total", int64(len(cases)))
	}
}

// ---------------------------------------------------------------------------------------------
// totality of the enumeration mappings, both directions

type EnumCase struct {
	Enum  string `json:"enum"` // result_code | qos
	Dir   string `json:"dir"`  // lib_to_wire | wire_to_lib
	Value int32  `json:"value"`
}

func runEnum(c EnumCase, k *ev.Case) *ev.Failure {
	k.NonTrivial(ev.JSON(c))
	k.Sample(func() any { return c })
	pb := eproto.NewEncoding()
	switch c.Enum + "/" + c.Dir {
	case "result_code/lib_to_wire":
		rc := message.ResultCode(c.Value)
		for _, cd := range codecs {
			var buf bytes.Buffer
			if _, err := cd.enc.EncodeTo(&buf, &message.ConnectResponse{ResultCode: rc, ResultString: "x"}); err != nil {
				return ev.Failf("C11.4 totality", "library result code %d cannot be encoded by %s: %v", rc, cd.name, err)
			}
			_, m, err := cd.enc.DecodeFrom(bytes.NewReader(buf.Bytes()))
			if err != nil {
				return ev.Failf("C11.4 totality", "library result code %d encoded by %s cannot be decoded: %v", rc, cd.name, err)
			}
			got := m.(*message.ConnectResponse).ResultCode
			want := rc
			if want == message.ResultCodeNormalClosure {
				want = message.ResultCodeSucceeded
			}
			if got != want {
				return ev.Failf("C11.4 totality", "library result code %d comes back as %d through %s", rc, got, cd.name)
			}
		}
	case "result_code/wire_to_lib":
		raw, err := (&autogen.Message{Message: &autogen.Message_ConnectResponse{ConnectResponse: &autogen.ConnectResponse{ResultCode: autogen.ResultCode(c.Value), ResultString: "x"}}}).Marshal()
		if err != nil {
			return ev.Failf("harness", "marshal: %v", err)
		}
		_, m, err := pb.DecodeFrom(bytes.NewReader(raw))
		if err != nil {
			return ev.Failf("C11.4 totality", "wire result code %d (%s) has no library counterpart: %v", c.Value, autogen.ResultCode_name[c.Value], err)
		}
		var buf bytes.Buffer
		if _, err := pb.EncodeTo(&buf, m); err != nil {
			return ev.Failf("C11.4 totality", "wire result code %d decodes to %d which cannot be encoded again: %v", c.Value, m.(*message.ConnectResponse).ResultCode, err)
		}
		var back autogen.Message
		if err := back.Unmarshal(buf.Bytes()); err != nil {
			return ev.Failf("harness", "unmarshal: %v", err)
		}
		if got := back.GetConnectResponse().ResultCode; int32(got) != c.Value {
			return ev.Failf("C11.4 totality", "wire result code %d re-encodes as %d", c.Value, got)
		}
	case "qos/lib_to_wire":
		q := message.QoS(c.Value)
		for _, cd := range codecs {
			var buf bytes.Buffer
			if _, err := cd.enc.EncodeTo(&buf, &message.UpstreamOpenRequest{QoS: q}); err != nil {
				return ev.Failf("C11.4 totality", "library QoS %d cannot be encoded by %s: %v", q, cd.name, err)
			}
			_, m, err := cd.enc.DecodeFrom(bytes.NewReader(buf.Bytes()))
			if err != nil {
				return ev.Failf("C11.4 totality", "QoS %d: %s cannot decode: %v", q, cd.name, err)
			}
			if got := m.(*message.UpstreamOpenRequest).QoS; got != q {
				return ev.Failf("C11.4 totality", "library QoS %d comes back as %d through %s", q, got, cd.name)
			}
		}
	case "qos/wire_to_lib":
		raw, _ := (&autogen.Message{Message: &autogen.Message_UpstreamOpenRequest{UpstreamOpenRequest: &autogen.UpstreamOpenRequest{Qos: autogen.QoS(c.Value)}}}).Marshal()
		_, m, err := pb.DecodeFrom(bytes.NewReader(raw))
		if err != nil {
			return ev.Failf("C11.4 totality", "wire QoS %d (%s) has no library counterpart: %v", c.Value, autogen.QoS_name[c.Value], err)
		}
		var buf bytes.Buffer
		if _, err := pb.EncodeTo(&buf, m); err != nil {
			return ev.Failf("C11.4 totality", "wire QoS %d cannot be re-encoded: %v", c.Value, err)
		}
		var back autogen.Message
		back.Unmarshal(buf.Bytes())
		if got := back.GetUpstreamOpenRequest().Qos; int32(got) != c.Value {
			return ev.Failf("C11.4 totality", "wire QoS %d re-encodes as %d", c.Value, got)
		}
	default:
		return ev.Failf("harness", "unknown enum case %v", c)
	}
	return nil
}

var subEnum = ev.Sub[EnumCase]{Name: "enum", Run: runEnum, Gen: func(t *rapid.T) EnumCase { return EnumCase{} }}

func TestEnumTotality(t *testing.T) {
	if ev.ShardIndex() != 0 {
		t.Skip("shard 0 only")
	}
	ok := true
	for _, rc := range msggen.ResultCodes {
		ok = subEnum.One(t, EnumCase{"result_code", "lib_to_wire", int32(rc)}) && ok
	}
	var wire []int
	for v := range autogen.ResultCode_name {
		wire = append(wire, int(v))
	}
	sort.Ints(wire)
	for _, v := range wire {
		ok = subEnum.One(t, EnumCase{"result_code", "wire_to_lib", int32(v)}) && ok
	}
	for _, q := range msggen.QoSValues {
		ok = subEnum.One(t, EnumCase{"qos", "lib_to_wire", int32(q)}) && ok
	}
	wire = wire[:0]
	for v := range autogen.QoS_name {
		wire = append(wire, int(v))
	}
	sort.Ints(wire)
	for _, v := range wire {
		ok = subEnum.One(t, EnumCase{"qos", "wire_to_lib", int32(v)}) && ok
	}
	ev.SetExhaustive("enum-totality", ok)
}

// ---------------------------------------------------------------------------------------------
// encoding.Transport counters

type memRW struct {
	q  [][]byte
	tx uint64
}

func (m *memRW) Read() ([]byte, error) {
	if len(m.q) == 0 {
		return nil, fmt.Errorf("empty")
	}
	b := m.q[0]
	m.q = m.q[1:]
	return b, nil
}
func (m *memRW) Write(b []byte) error {
	m.q = append(m.q, append([]byte(nil), b...))
	m.tx += uint64(len(b))
	return nil
}
func (m *memRW) Close() error                { return nil }
func (m *memRW) RxBytesCounterValue() uint64 { return 0 }
func (m *memRW) TxBytesCounterValue() uint64 { return m.tx }

type SeqCase struct {
	Codec string `json:"codec"`
	Msgs  []Case `json:"msgs"`
}

func runSeq(c SeqCase, k *ev.Case) *ev.Failure {
	enc := codecs[0].enc
	if c.Codec == "json" {
		enc = codecs[1].enc
	}
	rw := &memRW{}
	tr := encoding.NewTransport(&encoding.TransportConfig{Transport: rw, Encoding: enc})
	wantBytes := map[reflect.Type]uint64{}
	wantMsgs := map[reflect.Type]uint64{}
	var sent []message.Message
	for _, mc := range c.Msgs {
		m, err := mc.build()
		if err != nil {
			return ev.Failf("harness", "build: %v", err)
		}
		var buf bytes.Buffer
		n, err := enc.EncodeTo(&buf, m)
		if err != nil {
			return ev.Failf("C11.1 encode", "cannot encode %s: %v", mc.Type, err)
		}
		if err := tr.Write(m); err != nil {
			return ev.Failf("C11.1 encode", "Transport.Write %s: %v", mc.Type, err)
		}
		wantBytes[reflect.TypeOf(m)] += uint64(n)
		wantMsgs[reflect.TypeOf(m)]++
		sent = append(sent, m)
	}
	k.NonTrivial(ev.JSON(c))
	k.Sample(func() any { return map[string]any{"codec": c.Codec, "n": len(c.Msgs)} })
	tx := tr.TxCount()
	if !reflect.DeepEqual(orEmpty(tx.ByteCount), wantBytes) || !reflect.DeepEqual(orEmpty(tx.MessageCount), wantMsgs) {
		return ev.Failf("C11.3 transport-counters", "TxCount bytes %v msgs %v, expected %v / %v", tx.ByteCount, tx.MessageCount, wantBytes, wantMsgs)
	}
	if tr.TxMessageCounterValue() != uint64(len(sent)) {
		return ev.Failf("C11.3 transport-counters", "TxMessageCounterValue %d, wrote %d", tr.TxMessageCounterValue(), len(sent))
	}
	var total uint64
	for _, v := range wantBytes {
		total += v
	}
	if rw.tx != total {
		return ev.Failf("C11.3 transport-counters", "codec reported %d bytes, transport carried %d", total, rw.tx)
	}
	for i := range sent {
		m2, err := tr.Read()
		if err != nil {
			return ev.Failf("C11.1 decode", "Transport.Read message %d: %v", i, err)
		}
		a, _ := msggen.Canon(sent[i], false)
		b, err := msggen.Canon(m2, true)
		if err != nil {
			return ev.Failf("C11.1 canonical-form", "%v", err)
		}
		if d := msggen.Diff(a, b, msggen.TypeName(sent[i])); d != "" {
			return ev.Failf("C11.1 round-trip", "through encoding.Transport: %s", d)
		}
	}
	rx := tr.RxCount()
	if !reflect.DeepEqual(orEmpty(rx.ByteCount), wantBytes) || !reflect.DeepEqual(orEmpty(rx.MessageCount), wantMsgs) {
		return ev.Failf("C11.3 transport-counters", "RxCount bytes %v msgs %v, expected %v / %v", rx.ByteCount, rx.MessageCount, wantBytes, wantMsgs)
	}
	if tr.RxMessageCounterValue() != uint64(len(sent)) {
		return ev.Failf("C11.3 transport-counters", "RxMessageCounterValue %d, read %d", tr.RxMessageCounterValue(), len(sent))
	}
	return nil
}

func orEmpty(m map[reflect.Type]uint64) map[reflect.Type]uint64 {
	if m == nil {
		return map[reflect.Type]uint64{}
	}
	return m
}

var subSeq = ev.Sub[SeqCase]{Name: "transport-counters", Q: 300, T: 8000,
	Gen: func(t *rapid.T) SeqCase {
		c := SeqCase{Codec: rapid.SampledFrom([]string{"proto", "json"}).Draw(t, "codec")}
		n := rapid.IntRange(1, 12).Draw(t, "n")
		for i := 0; i < n; i++ {
			p := msggen.Registry[rapid.IntRange(0, len(msggen.Registry)-1).Draw(t, "type")]
			rc := &randChooser{t: t}
			msggen.BuildMessage(p, rc)
			c.Msgs = append(c.Msgs, Case{Type: msggen.TypeName(p), Decisions: rc.rec})
		}
		return c
	}, Run: runSeq}

func TestTransportCounters(t *testing.T) { subSeq.Check(t) }

func TestReplay(t *testing.T) { ev.ReplayTest(t, subRandom, subGrid, subEnum, subSeq) }
