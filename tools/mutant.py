#!/usr/bin/env python3
"""Run checks against a seeded breaking change.

  tools/mutant.py <seeded-dir> <ID>[,<ID>...] [quick|thorough] [--seeds 1,2]

Applies <seeded-dir>/patch.diff to /repo with `git apply` (the tree must be clean), runs ./check for each named property with
the evidence redirected to a scratch directory, restores /repo with `git checkout -- .` (+ removal of files the patch created)
and writes <seeded-dir>/result.json. Exit 0 = at least one check reported a VIOLATION (mutant caught)."""
import json, os, re, subprocess, sys, tempfile, time, shutil

ROOT = os.path.dirname(os.path.dirname(os.path.abspath(__file__)))
REPO = "/repo"


def sh(*a, **k):
    return subprocess.run(a, stdout=subprocess.PIPE, stderr=subprocess.STDOUT, text=True, **k)


def main():
    a = sys.argv[1:]
    d = os.path.abspath(a[0])
    ids = a[1].split(",")
    tier = a[2] if len(a) > 2 and not a[2].startswith("--") else "quick"
    seeds = [1]
    if "--seeds" in a:
        seeds = [int(x) for x in a[a.index("--seeds") + 1].split(",")]
    patch = os.path.join(d, "patch.diff")
    st = sh("git", "-C", REPO, "status", "--porcelain").stdout.strip()
    if st:
        print("refusing: /repo is not clean:\n" + st)
        return 2
    r = sh("git", "-C", REPO, "apply", patch)
    if r.returncode != 0:
        print("patch does not apply:\n" + r.stdout)
        return 2
    scratch = tempfile.mkdtemp(prefix="verif-mutant-ev-")
    results = []
    try:
        b = sh("go", "build", "./...", cwd=REPO, env=dict(os.environ, GOFLAGS="-mod=mod", GOPROXY="off"))
        if b.returncode != 0:
            print("mutant does not build:\n" + b.stdout[-2000:])
            return 2
        for pid in ids:
            for seed in seeds:
                t0 = time.time()
                env = dict(os.environ, VERIF_EVIDENCE_DIR=scratch)
                r = sh(os.path.join(ROOT, "check"), pid, tier, "--seed", str(seed), cwd=ROOT, env=env)
                viol = [l for l in r.stdout.splitlines() if l.startswith("VIOLATION")]
                clauses = sorted(set(re.findall(r"^\s*(?:violation|clause)[:=]\s*(.*)$", r.stdout, re.M)))[:10]
                detail = [l for l in r.stdout.splitlines() if re.match(r"^\s*(C\d\d\.|\[|- )", l)][:12]
                results.append({"property": pid, "tier": tier, "seed": seed, "exit": r.returncode, "violations": len(viol),
                                "wall_s": round(time.time() - t0, 1), "first_lines": (viol[:3] + detail)[:12]})
                print("%s %s seed=%d exit=%d violations=%d wall=%.0fs" % (pid, tier, seed, r.returncode, len(viol), time.time() - t0))
                for l in r.stdout.splitlines():
                    if "VIOLATION" in l or l.startswith("  ") and len(viol) and len(l) < 400:
                        pass
                tail = [l for l in r.stdout.splitlines() if not l.startswith("KNOWN-FINDING")][-14:]
                print("\n".join("    " + l[:300] for l in tail))
    finally:
        sh("git", "-C", REPO, "checkout", "--", ".")
        sh("git", "-C", REPO, "clean", "-fdq")
        shutil.rmtree(scratch, ignore_errors=True)
        # the mutant's violations left replay files: they belong to the mutant, not to the tree
        rp = os.path.join(ROOT, "replays")
        for pid in ids:
            for f in os.listdir(rp) if os.path.isdir(rp) else []:
                if f.startswith(pid + "-"):
                    try:
                        os.remove(os.path.join(rp, f))
                    except OSError:
                        pass
    caught = any(x["exit"] == 1 and x["violations"] > 0 for x in results)
    out = {"patch": os.path.relpath(patch, ROOT), "at": time.strftime("%Y-%m-%dT%H:%M:%SZ", time.gmtime()), "caught": caught, "runs": results,
           "repo_head": sh("git", "-C", REPO, "rev-parse", "--short", "HEAD").stdout.strip()}
    prev = []
    rf = os.path.join(d, "result.json")
    if os.path.exists(rf):
        try:
            prev = json.load(open(rf)).get("history", [])
        except Exception:
            prev = []
    out["history"] = prev + [{"at": out["at"], "caught": caught, "runs": results, "repo_head": out["repo_head"]}]
    json.dump(out, open(rf, "w"), indent=1)
    print("CAUGHT" if caught else "MISSED", d)
    return 0 if caught else 1


if __name__ == "__main__":
    sys.exit(main())
