package smoke

import (
	"testing"

	"github.com/aptpod/iscp-go/iscp"
	"pgregory.net/rapid"
)

func TestSmoke(t *testing.T) {
	_ = iscp.VerifNewInmemSentStorage()
	rapid.Check(t, func(t *rapid.T) { _ = rapid.Int().Draw(t, "x") })
}
