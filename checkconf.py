# Per-property configuration of the ./check driver.
# groups: test binaries to build and run; shards: processes per tier (each gets its own rapid seed).

def g(name, pkg, q=4, t=16, **kw):
    d = {"name": name, "pkg": pkg, "shards": {"quick": q, "thorough": t}}
    d.update(kw)
    return d

PROPS = {
    "C17": {
        "level": "exploration",
        "groups": [g("main", "c17", q=4, t=16, run="^Test(Regress|Grid|RoundTrip|KeyValues|Binary|Derive|DialConfig)$")],
        "timeout": {"quick": 300, "thorough": 1500},
        "rule": ("generated: (a) the exhaustive grid encoding x compression type x level{nil,0..9} x window{nil,0,1,8,15,32} x reconnect x 16 "
                 "group-field combinations through 4 carriers (key/value map, WebSocket URL query, WebTransport URL query, QUIC binary); "
                 "(b) random valid sets with arbitrary UTF-8 ids; (c) arbitrary key/value lists (known keys with hostile values, unknown, "
                 "case-variant, empty and duplicated keys, invalid UTF-8) per carrier; (d) arbitrary and mutated byte strings for the binary form; "
                 "(e) parameter sets x 2-4 arbitrary base configs. Non-trivial = a round-trip cell, an arbitrary input that is ACCEPTED "
                 "(exercises the faithful-reading oracle), or a derive case naming type+level+window; distinct by carrier+content hash."),
        "assumptions": ["a value 'null' for an integer field is JSON null and counts as the field being absent",
                        "keys that differ from a known key only by letter case are matched by encoding/json; no demand is made on them",
                        "the plain key/value map has no format of its own: structural rejection (empty/duplicate key) is only demanded of the URL and binary carriers"],
    },
}
