#!/usr/bin/env python3
"""Regenerate MANIFEST.json from checkconf.PROPS and manifest_text.py (claims), keeping not_applicable current."""
import json, os, sys
ROOT = os.path.dirname(os.path.dirname(os.path.abspath(__file__)))
sys.path.insert(0, ROOT)
from checkconf import PROPS
from manifest_text import TEXT, HOOK_COMMITS, NOT_APPLICABLE
props = [json.loads(l) for l in open(os.path.join(ROOT, "properties.jsonl"))]
m = {
    "version": 1,
    "setup_cmd": "./check --setup",
    "hooks": {"guard": "verif",
              "enable": "go test -tags verif (the harness module /verif/harness builds /repo through a replace directive; every check command passes -tags verif)",
              "baseline_off_cmd": "cd /repo && GOFLAGS=-mod=mod go test -json -vet=off -count=1 -timeout 25m ./...",
              "source_commits": HOOK_COMMITS, "add_only": True},
    "engines": [{"name": "rapid-harness", "path": "harness", "serves_properties": sorted(PROPS),
                 "kind_free_text": "Go module, one test package per property; pgregory.net/rapid v1.3.0 generators, explicit oracles over an in-memory broker ledger; native go fuzzing for byte-level targets (thorough); python driver ./check shards seeds over processes and merges evidence"}],
    "checks": [], "notes": "DESIGN.md explains every check; known_findings.json lists known findings and fixed defects.",
    "not_applicable": [],
}
for p in props:
    pid = p["id"]
    if pid in PROPS and pid in TEXT:
        t = TEXT[pid]
        m["checks"].append({
            "property_id": pid, "quick_cmd": "./check %s quick" % pid, "thorough_cmd": "./check %s thorough" % pid,
            "evidence_file": "evidence/%s.json" % pid, "replay_cmd_template": "./check %s --replay {path}" % pid,
            "engine": "rapid-harness",
            "level_claimed": {"category": PROPS[pid]["level"], "text": t["level_text"], "design_ref": "DESIGN.md section 3, " + pid},
            "level_note": t["level_note"], "technique": t["technique"]})
    else:
        m["not_applicable"].append({"property_id": pid, "reason": NOT_APPLICABLE.get(pid, "check under construction in this session (not yet claimed)")})
json.dump(m, open(os.path.join(ROOT, "MANIFEST.json"), "w"), indent=1)
print("claimed:", [c["property_id"] for c in m["checks"]])
