// Package upk is the shared kit for upstream scenarios (C01, C02, C07, C20): case types, generators,
// the ack script of the broker, the runner and the history it produces.
package upk

import (
	"context"
	"encoding/binary"
	"fmt"
	"runtime"
	"sort"
	"sync"
	"time"

	"github.com/aptpod/iscp-go/iscp"
	"github.com/aptpod/iscp-go/message"
	"github.com/google/uuid"
	"pgregory.net/rapid"

	"verifharness/sim"
)

// Policy is a flush policy.
type Policy struct {
	Kind       string `json:"kind"` // none | interval | size | interval_or_size | immediate
	IntervalMs int    `json:"interval_ms,omitempty"`
	Size       int    `json:"size,omitempty"`
}

func (p Policy) Option() iscp.UpstreamOption {
	switch p.Kind {
	case "none":
		return iscp.WithUpstreamFlushPolicyNone()
	case "interval":
		return iscp.WithUpstreamFlushPolicyIntervalOnly(time.Duration(p.IntervalMs) * time.Millisecond)
	case "size":
		return iscp.WithUpstreamFlushPolicyBufferSizeOnly(uint32(p.Size))
	case "interval_or_size":
		return iscp.WithUpstreamFlushPolicyIntervalOrBufferSize(time.Duration(p.IntervalMs)*time.Millisecond, uint32(p.Size))
	case "immediate":
		return iscp.WithUpstreamFlushPolicyImmediately()
	}
	panic("unknown policy " + p.Kind)
}

func (p Policy) HasTicker() bool { return p.Kind == "interval" || p.Kind == "interval_or_size" }

func GenPolicy(t *rapid.T) Policy {
	switch rapid.IntRange(0, 4).Draw(t, "policy") {
	case 0:
		return Policy{Kind: "none"}
	case 1:
		return Policy{Kind: "interval", IntervalMs: rapid.IntRange(1, 20).Draw(t, "interval")}
	case 2:
		return Policy{Kind: "size", Size: rapid.IntRange(0, 64).Draw(t, "size")}
	case 3:
		return Policy{Kind: "interval_or_size", IntervalMs: rapid.IntRange(1, 20).Draw(t, "interval"), Size: rapid.IntRange(0, 64).Draw(t, "size")}
	default:
		return Policy{Kind: "immediate"}
	}
}

// Op is one step of a writer program.
type Op struct {
	Kind  string `json:"op"`              // write | flush | yield | sleep | state
	ID    int    `json:"id,omitempty"`    // data id index (pool index; >= 100: fresh id unique to this op)
	Sizes []int  `json:"sizes,omitempty"` // payload length per point
	Us    int    `json:"us,omitempty"`    // sleep microseconds
}

// DataID returns the data id for a pool index.
func DataID(i int) *message.DataID {
	return &message.DataID{Name: fmt.Sprintf("name/%d", i), Type: fmt.Sprintf("type%d", i%3)}
}

// GenProgram draws a writer program of up to maxOps operations.
func GenProgram(t *rapid.T, maxOps int, pool int, bigRare bool) []Op {
	n := rapid.IntRange(1, maxOps).Draw(t, "nops")
	ops := make([]Op, 0, n)
	fresh := 100
	for i := 0; i < n; i++ {
		switch k := rapid.IntRange(0, 9).Draw(t, "opkind"); {
		case k <= 6:
			op := Op{Kind: "write"}
			if rapid.IntRange(0, 7).Draw(t, "freshid") == 0 {
				fresh++
				op.ID = fresh + 1000*rapid.IntRange(0, 50).Draw(t, "freshsalt")
			} else {
				op.ID = rapid.IntRange(0, pool-1).Draw(t, "id")
			}
			np := rapid.IntRange(0, 4).Draw(t, "npoints")
			op.Sizes = make([]int, np)
			for j := range op.Sizes {
				switch rapid.IntRange(0, 9).Draw(t, "sizeclass") {
				case 0:
					op.Sizes[j] = 0
				case 1:
					op.Sizes[j] = 1
				case 2, 3, 4:
					op.Sizes[j] = rapid.IntRange(2, 20).Draw(t, "small")
				case 5, 6:
					op.Sizes[j] = rapid.IntRange(21, 70).Draw(t, "around-threshold")
				case 7:
					op.Sizes[j] = rapid.IntRange(71, 600).Draw(t, "medium")
				default:
					if bigRare && rapid.IntRange(0, 30).Draw(t, "big") == 0 {
						op.Sizes[j] = 65536
					} else {
						op.Sizes[j] = rapid.IntRange(8, 16).Draw(t, "marker-size")
					}
				}
			}
			ops = append(ops, op)
		case k == 7:
			ops = append(ops, Op{Kind: "flush"})
		case k == 8:
			ops = append(ops, Op{Kind: "yield"})
		default:
			ops = append(ops, Op{Kind: "sleep", Us: rapid.IntRange(1, 1500).Draw(t, "us")})
		}
	}
	return ops
}

// Payload builds the payload of point (writer, counter) with the given length; the first bytes carry
// the identity when there is room (identity is always also carried by the elapsed time).
func Payload(writer, counter, size int) []byte {
	b := make([]byte, size)
	var hdr [8]byte
	binary.BigEndian.PutUint32(hdr[:4], uint32(writer)+1)
	binary.BigEndian.PutUint32(hdr[4:], uint32(counter))
	copy(b, hdr[:])
	for i := 8; i < size; i++ {
		b[i] = byte(i*31 + counter + writer*7)
	}
	return b
}

// Elapsed is the unique elapsed time of point (writer, counter).
func Elapsed(writer, counter int) time.Duration {
	return time.Duration(writer+1)*time.Hour + time.Duration(counter)*time.Microsecond
}

// AckPlan scripts how the broker acknowledges upstream chunks.
type AckPlan struct {
	Mode string `json:"mode"` // immediate | batch | reorder | dup | withhold
	K    int    `json:"k,omitempty"`
	// AliasMode: how the broker assigns data-id aliases to ids it sees in full form:
	// never | first (in the ack of the chunk that first shows the id) | later (one ack later) | partial (every second id)
	AliasMode string `json:"alias_mode"`
	// Codes: result code per chunk (index seq-1 mod len); empty = success
	Codes []int `json:"codes,omitempty"`
	// PreAlias: which of the pre-registered ids get an alias in the open response: all | some | none
	PreAlias string `json:"pre_alias,omitempty"`
}

func GenAckPlan(t *rapid.T) AckPlan {
	p := AckPlan{
		Mode:      rapid.SampledFrom([]string{"immediate", "immediate", "batch", "reorder", "dup"}).Draw(t, "ackmode"),
		AliasMode: rapid.SampledFrom([]string{"never", "first", "first", "later", "partial"}).Draw(t, "aliasmode"),
		PreAlias:  rapid.SampledFrom([]string{"all", "some", "none"}).Draw(t, "prealias"),
	}
	if p.Mode == "batch" || p.Mode == "reorder" {
		p.K = rapid.IntRange(2, 5).Draw(t, "k")
	}
	if rapid.IntRange(0, 3).Draw(t, "failcodes") == 0 {
		n := rapid.IntRange(1, 4).Draw(t, "ncodes")
		for i := 0; i < n; i++ {
			// every library result code except NormalClosure (2: shares the wire value of Succeeded) and
			// TooShortPingInterval (30: its wire mapping is C11's business)
			p.Codes = append(p.Codes, rapid.SampledFrom(ResultCodes).Draw(t, "code"))
		}
	}
	return p
}

// ResultCodes are the result codes a scripted broker may send in acks.
var ResultCodes = func() []int {
	var r []int
	for c := 1; c <= 36; c++ {
		if c != 2 && c != 30 {
			r = append(r, c)
		}
	}
	return r
}()

// AckScript is the broker-side implementation of an AckPlan for ONE upstream.
type AckScript struct {
	Plan AckPlan
	B    *sim.Broker

	mu        sync.Mutex
	pending   []*message.UpstreamChunkResult
	pendAlias map[uint32]*message.DataID
	laterIDs  []message.DataID // ids to alias in the next ack ("later")
	seenIDs   map[message.DataID]int
	timer     *time.Timer
	inc       *sim.Inc
	up        *sim.UpState
	// SentResults: every result the broker sent, in order (seq, code)
	SentResults []SentResult
	Withheld    map[uint32]bool // seqs never to be acknowledged (C02/C08)
}

type SentResult struct {
	Seq  uint32
	Code message.ResultCode
	Inc  int
}

func NewAckScript(b *sim.Broker, plan AckPlan) *AckScript {
	return &AckScript{Plan: plan, B: b, pendAlias: map[uint32]*message.DataID{}, seenIDs: map[message.DataID]int{}, Withheld: map[uint32]bool{}}
}

func (s *AckScript) code(seq uint32) message.ResultCode {
	if len(s.Plan.Codes) == 0 {
		return message.ResultCodeSucceeded
	}
	return message.ResultCode(s.Plan.Codes[int(seq-1)%len(s.Plan.Codes)])
}

// OpenAliases implements sim.Broker.OpenAliases for the plan.
func (s *AckScript) OpenAliases(req *message.UpstreamOpenRequest) map[uint32]*message.DataID {
	res := map[uint32]*message.DataID{}
	for i, id := range req.DataIDs {
		switch s.Plan.PreAlias {
		case "all":
		case "some":
			if i%2 == 1 {
				continue
			}
		default:
			continue
		}
		res[uint32(i+1)] = id
	}
	return res
}

// OnChunk implements sim.Broker.OnChunk.
func (s *AckScript) OnChunk(inc *sim.Inc, up *sim.UpState, e *sim.Entry) {
	ch := e.Msg.(*message.UpstreamChunk)
	s.mu.Lock()
	defer s.mu.Unlock()
	s.inc, s.up = inc, up
	seq := ch.StreamChunk.SequenceNumber
	// alias assignment for ids seen in full form
	for _, id := range s.laterIDs {
		s.assign(up, id)
	}
	s.laterIDs = nil
	for _, g := range ch.StreamChunk.DataPointGroups {
		id, ok := g.DataIDOrAlias.(*message.DataID)
		if !ok {
			continue
		}
		s.seenIDs[*id]++
		if _, has := up.Rev[*id]; has {
			continue
		}
		switch s.Plan.AliasMode {
		case "first":
			s.assign(up, *id)
		case "later":
			s.laterIDs = append(s.laterIDs, *id)
		case "partial":
			if len(s.seenIDs)%2 == 0 {
				s.assign(up, *id)
			}
		}
	}
	if s.Withheld[seq] {
		return
	}
	res := &message.UpstreamChunkResult{SequenceNumber: seq, ResultCode: s.code(seq), ResultString: fmt.Sprintf("r%d", seq)}
	switch s.Plan.Mode {
	case "immediate":
		s.pending = append(s.pending, res)
		s.flushLocked()
	case "dup":
		s.pending = append(s.pending, res)
		s.flushLocked()
		if seq%2 == 0 {
			s.pending = append(s.pending, res)
			s.flushLocked()
		}
	case "batch", "reorder":
		s.pending = append(s.pending, res)
		if len(s.pending) >= s.Plan.K {
			s.flushLocked()
		} else {
			s.arm()
		}
	}
}

func (s *AckScript) assign(up *sim.UpState, id message.DataID) {
	if _, has := up.Rev[id]; has {
		return
	}
	for _, p := range s.pendAlias {
		if *p == id {
			return
		}
	}
	// next free alias (above everything published or pending)
	next := up.NextData
	for a := range s.pendAlias {
		if a > next {
			next = a
		}
	}
	next++
	idc := id
	s.pendAlias[next] = &idc
}

func (s *AckScript) arm() {
	if s.timer != nil {
		return
	}
	s.timer = time.AfterFunc(1500*time.Microsecond, func() {
		s.mu.Lock()
		defer s.mu.Unlock()
		s.timer = nil
		s.flushLocked()
	})
}

// Flush sends everything pending now.
func (s *AckScript) Flush() {
	s.mu.Lock()
	defer s.mu.Unlock()
	s.flushLocked()
}

func (s *AckScript) flushLocked() {
	if len(s.pending) == 0 && len(s.pendAlias) == 0 {
		return
	}
	if s.inc == nil {
		return
	}
	results := s.pending
	s.pending = nil
	if s.Plan.Mode == "reorder" {
		for i, j := 0, len(results)-1; i < j; i, j = i+1, j-1 {
			results[i], results[j] = results[j], results[i]
		}
	}
	al := s.pendAlias
	s.pendAlias = map[uint32]*message.DataID{}
	// the alias table is published before the ack is sent: from now on the client may use them
	s.B.PublishAliases(s.up, al)
	for _, r := range results {
		s.SentResults = append(s.SentResults, SentResult{r.SequenceNumber, r.ResultCode, s.inc.Index})
	}
	s.inc.Send(&message.UpstreamChunkAck{StreamIDAlias: s.up.Alias, Results: results, DataIDAliases: al})
}

// Results returns a copy of the results sent so far.
func (s *AckScript) Results() []SentResult {
	s.mu.Lock()
	defer s.mu.Unlock()
	return append([]SentResult(nil), s.SentResults...)
}

// ---------------------------------------------------------------------------------------------
// client-side recording

// Accepted is one WriteDataPoints call that returned nil.
type Accepted struct {
	Writer int
	ID     message.DataID
	Points []sim.Point
}

// HookRec records hook invocations of one upstream.
type HookRec struct {
	mu     sync.Mutex
	Before []iscp.UpstreamChunk
	After  []iscp.UpstreamChunkResult
	AfterT []time.Time
	Closed []*iscp.UpstreamClosedEvent
	Resume []*iscp.UpstreamResumedEvent
}

func (h *HookRec) HookBefore(_ uuid.UUID, c iscp.UpstreamChunk) {
	h.mu.Lock()
	h.Before = append(h.Before, c)
	h.mu.Unlock()
}

func (h *HookRec) HookAfter(_ uuid.UUID, r iscp.UpstreamChunkResult) {
	h.mu.Lock()
	h.After = append(h.After, r)
	h.AfterT = append(h.AfterT, time.Now())
	h.mu.Unlock()
}

func (h *HookRec) OnUpstreamClosed(ev *iscp.UpstreamClosedEvent) {
	h.mu.Lock()
	h.Closed = append(h.Closed, ev)
	h.mu.Unlock()
}

func (h *HookRec) OnUpstreamResumed(ev *iscp.UpstreamResumedEvent) {
	h.mu.Lock()
	h.Resume = append(h.Resume, ev)
	h.mu.Unlock()
}

func (h *HookRec) Snapshot() (before []iscp.UpstreamChunk, after []iscp.UpstreamChunkResult, afterT []time.Time) {
	h.mu.Lock()
	defer h.mu.Unlock()
	return append([]iscp.UpstreamChunk(nil), h.Before...), append([]iscp.UpstreamChunkResult(nil), h.After...), append([]time.Time(nil), h.AfterT...)
}

func (h *HookRec) ClosedEvents() []*iscp.UpstreamClosedEvent {
	h.mu.Lock()
	defer h.mu.Unlock()
	return append([]*iscp.UpstreamClosedEvent(nil), h.Closed...)
}

func (h *HookRec) ResumedCount() int {
	h.mu.Lock()
	defer h.mu.Unlock()
	return len(h.Resume)
}

// WriterResult is what one writer goroutine observed.
type WriterResult struct {
	Accepted []Accepted
	Errors   []string // errors returned by Write/Flush (op index: error)
	Hung     string   // non-empty: the call that did not return
	Flushes  int
}

// RunWriter executes a program against an upstream. perCall bounds each call (watchdog).
func RunWriter(up *iscp.Upstream, writer int, ops []Op, perCall time.Duration, counter *int) WriterResult {
	var res WriterResult
	// all points of this writer live in one backing array and every call passes a sub-slice of it whose capacity reaches into
	// the region of the later calls - ordinary Go usage ("pts[a:b]" of a batch). A library that keeps or appends to the caller's
	// slice instead of copying it then overwrites points of later writes (seeded change C01/m1), which the ledger oracle sees.
	total := 0
	for _, op := range ops {
		if op.Kind == "write" {
			total += len(op.Sizes)
		}
	}
	arena := make([]*message.DataPoint, total)
	off := 0
	for i, op := range ops {
		switch op.Kind {
		case "write":
			id := DataID(op.ID)
			pts := arena[off : off+len(op.Sizes)]
			off += len(op.Sizes)
			rec := Accepted{Writer: writer, ID: *id}
			for j, sz := range op.Sizes {
				*counter++
				pts[j] = &message.DataPoint{ElapsedTime: Elapsed(writer, *counter), Payload: Payload(writer, *counter, sz)}
				rec.Points = append(rec.Points, sim.Point{Name: id.Name, Type: id.Type, Elapsed: pts[j].ElapsedTime, Payload: pts[j].Payload})
			}
			var err error
			ok, _ := sim.Call(perCall, func() {
				ctx, cancel := context.WithTimeout(context.Background(), perCall)
				defer cancel()
				err = up.WriteDataPoints(ctx, id, pts...)
			})
			if !ok {
				res.Hung = fmt.Sprintf("WriteDataPoints (writer %d op %d)", writer, i)
				return res
			}
			if err != nil {
				res.Errors = append(res.Errors, fmt.Sprintf("op %d write: %v", i, err))
				continue
			}
			res.Accepted = append(res.Accepted, rec)
		case "flush":
			var err error
			ok, _ := sim.Call(perCall, func() {
				ctx, cancel := context.WithTimeout(context.Background(), perCall)
				defer cancel()
				err = up.Flush(ctx)
			})
			if !ok {
				res.Hung = fmt.Sprintf("Flush (writer %d op %d)", writer, i)
				return res
			}
			if err != nil {
				res.Errors = append(res.Errors, fmt.Sprintf("op %d flush: %v", i, err))
			} else {
				res.Flushes++
			}
		case "yield":
			runtime.Gosched()
		case "sleep":
			time.Sleep(time.Duration(op.Us) * time.Microsecond)
		}
	}
	return res
}

// PointKey identifies a point by content.
func PointKey(p sim.Point) string {
	return fmt.Sprintf("%s|%s|%d|%x", p.Name, p.Type, int64(p.Elapsed), p.Payload)
}

// SortedKeys returns the sorted multiset of point keys.
func SortedKeys(ps []sim.Point) []string {
	res := make([]string, len(ps))
	for i, p := range ps {
		res[i] = PointKey(p)
	}
	sort.Strings(res)
	return res
}

// WriterOf extracts the writer index from an elapsed time.
func WriterOf(e time.Duration) int { return int(e/time.Hour) - 1 }
