// Package c07: streams that share a connection are isolated from each other.
package c07

import (
	"context"
	"fmt"
	"sort"
	"sync"
	"testing"
	"time"

	"github.com/aptpod/iscp-go/iscp"
	"github.com/aptpod/iscp-go/message"
	"github.com/google/uuid"
	"pgregory.net/rapid"

	"verifharness/ev"
)

func TestMain(m *testing.M) { ev.MainExit(m, "C07") }

// StoreOp is one operation on the sent storage.
type StoreOp struct {
	Kind   string `json:"op"` // store | remove | list | clear
	Stream int    `json:"stream"`
	Seq    uint32 `json:"seq"`
	Points int    `json:"points"`
}

type StoreCase struct {
	Flavour string      `json:"flavour"` // payload | nopayload
	Streams int         `json:"streams"`
	Ops     [][]StoreOp `json:"ops"` // one list: sequential; several: one goroutine each, every goroutine owns disjoint streams
}

func sid(i int) uuid.UUID { return uuid.UUID{0xaa, byte(i), 0, 0, 0, 0, 0x40, 0, 0x80} }

func dps(stream int, seq uint32, n int, payload bool) iscp.DataPointGroups {
	g := &iscp.DataPointGroup{DataID: &message.DataID{Name: fmt.Sprintf("s%d", stream), Type: "t"}}
	for i := 0; i < n; i++ {
		p := &message.DataPoint{ElapsedTime: time.Duration(1000*int64(seq) + int64(i))}
		if payload {
			p.Payload = []byte(fmt.Sprintf("s%d-%d-%d", stream, seq, i))
		}
		g.DataPoints = append(g.DataPoints, p)
	}
	return iscp.DataPointGroups{g}
}

func render(d iscp.DataPointGroups) string {
	var s []string
	for _, g := range d {
		for _, p := range g.DataPoints {
			s = append(s, fmt.Sprintf("%s/%d/%s", g.DataID.Name, p.ElapsedTime, p.Payload))
		}
	}
	return fmt.Sprint(s)
}

type model map[int]map[uint32]string // stream -> seq -> rendered content

func newStorage(fl string) iscp.VerifSentStorage {
	if fl == "nopayload" {
		return iscp.VerifNewInmemSentStorageNoPayload()
	}
	return iscp.VerifNewInmemSentStorage()
}

func checkStream(st iscp.VerifSentStorage, m model, stream int, when string) *ev.Failure {
	got, err := st.List(context.Background(), sid(stream))
	want, known := m[stream]
	if err != nil {
		if known && len(want) > 0 {
			return ev.Failf("C07.1 storage-isolation", "%s: List(stream %d) fails with %q, the stream should hold sequence numbers %v", when, stream, err, seqs(want))
		}
		return nil
	}
	if len(got) != len(want) {
		g := map[uint32]string{}
		for s, d := range got {
			g[s] = render(d)
		}
		return ev.Failf("C07.1 storage-isolation", "%s: stream %d holds sequence numbers %v, its own operations call for %v", when, stream, seqs(g), seqs(want))
	}
	for s, d := range got {
		if want[s] != render(d) {
			return ev.Failf("C07.1 storage-content", "%s: stream %d seq %d holds %s, stored %s", when, stream, s, render(d), want[s])
		}
	}
	return nil
}

func seqs(m map[uint32]string) []uint32 {
	var r []uint32
	for s := range m {
		r = append(r, s)
	}
	sort.Slice(r, func(i, j int) bool { return r[i] < r[j] })
	return r
}

func apply(st iscp.VerifSentStorage, m model, mmu *sync.Mutex, op StoreOp, payload bool) {
	ctx := context.Background()
	switch op.Kind {
	case "store":
		st.Store(ctx, sid(op.Stream), op.Seq, dps(op.Stream, op.Seq, op.Points, true))
		mmu.Lock()
		if m[op.Stream] == nil {
			m[op.Stream] = map[uint32]string{}
		}
		m[op.Stream][op.Seq] = render(dps(op.Stream, op.Seq, op.Points, payload))
		mmu.Unlock()
	case "remove":
		st.Remove(ctx, sid(op.Stream), op.Seq)
		mmu.Lock()
		delete(m[op.Stream], op.Seq)
		mmu.Unlock()
	case "list":
		st.List(ctx, sid(op.Stream))
	case "clear":
		st.Clear(ctx, sid(op.Stream))
		mmu.Lock()
		delete(m, op.Stream)
		mmu.Unlock()
	}
}

func runStore(c StoreCase, k *ev.Case) *ev.Failure {
	st := newStorage(c.Flavour)
	m := model{}
	var mmu sync.Mutex
	payload := c.Flavour != "nopayload"
	k.Label("flavour=" + c.Flavour)
	nt := false
	if len(c.Ops) == 1 {
		k.Label("sequential")
		for i, op := range c.Ops[0] {
			if (op.Kind == "clear" || op.Kind == "remove") && othersHold(m, op.Stream) {
				nt = true
				k.Label(op.Kind + "-while-another-stream-holds-entries")
			}
			apply(st, m, &mmu, op, payload)
			for s := 0; s < c.Streams; s++ {
				if f := checkStream(st, m, s, fmt.Sprintf("after op %d (%s stream %d seq %d)", i, op.Kind, op.Stream, op.Seq)); f != nil {
					return f
				}
			}
		}
	} else {
		k.Label("concurrent")
		var wg sync.WaitGroup
		for g := range c.Ops {
			wg.Add(1)
			go func(g int) {
				defer wg.Done()
				for _, op := range c.Ops[g] {
					apply(st, m, &mmu, op, payload)
				}
			}(g)
		}
		wg.Wait()
		nt = true
		for s := 0; s < c.Streams; s++ {
			if f := checkStream(st, m, s, "after all goroutines joined"); f != nil {
				return f
			}
		}
	}
	if nt {
		k.NonTrivial(ev.JSON(c))
	}
	k.Sample(func() any { return c })
	return nil
}

func othersHold(m model, stream int) bool {
	for s, e := range m {
		if s != stream && len(e) > 0 {
			return true
		}
	}
	return false
}

func genStoreOp(t *rapid.T, streams []int) StoreOp {
	op := StoreOp{Stream: rapid.SampledFrom(streams).Draw(t, "stream"), Seq: uint32(rapid.IntRange(1, 6).Draw(t, "seq"))}
	switch rapid.IntRange(0, 9).Draw(t, "kind") {
	case 0, 1, 2, 3, 4:
		op.Kind, op.Points = "store", rapid.IntRange(0, 3).Draw(t, "points")
	case 5, 6:
		op.Kind = "remove"
	case 7:
		op.Kind = "list"
	default:
		op.Kind = "clear"
	}
	return op
}

var subStore = ev.Sub[StoreCase]{Name: "storage", Q: 3000, T: 60000,
	Gen: func(t *rapid.T) StoreCase {
		c := StoreCase{Flavour: rapid.SampledFrom([]string{"payload", "nopayload"}).Draw(t, "flavour"), Streams: rapid.IntRange(2, 4).Draw(t, "streams")}
		if rapid.IntRange(0, 3).Draw(t, "concurrent") == 0 {
			// every goroutine owns its own streams: operations on different streams must commute
			for g := 0; g < c.Streams; g++ {
				n := rapid.IntRange(1, 30).Draw(t, "nops")
				var ops []StoreOp
				for i := 0; i < n; i++ {
					ops = append(ops, genStoreOp(t, []int{g}))
				}
				c.Ops = append(c.Ops, ops)
			}
			return c
		}
		all := make([]int, c.Streams)
		for i := range all {
			all[i] = i
		}
		n := rapid.IntRange(1, 40).Draw(t, "nops")
		var ops []StoreOp
		for i := 0; i < n; i++ {
			ops = append(ops, genStoreOp(t, all))
		}
		c.Ops = [][]StoreOp{ops}
		return c
	}, Run: runStore}

func TestStorage(t *testing.T) { subStore.Check(t) }
