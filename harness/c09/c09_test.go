// Package c09: concurrent workloads over one connection, run under the Go race detector. The oracle is
// the detector itself (reports are collected and normalised by the driver); the test only has to overlap
// library entry points on the same connection as much as possible.
package c09

import (
	"context"

	"fmt"
	"github.com/aptpod/iscp-go/message"
	"sync"
	"testing"
	"time"

	"pgregory.net/rapid"

	"verifharness/ev"
	"verifharness/scn"
	"verifharness/sim"
)

func TestMain(m *testing.M) { ev.MainExit(m, "C09") }

type Case struct {
	Codec    string      `json:"codec"`
	Programs scn.Program `json:"programs"`
	Cuts     []int       `json:"cuts"` // moments (ms) at which the link is cut
	Redial   string      `json:"redial"`
}

func run(c Case, k *ev.Case) *ev.Failure {
	w := sim.NewWorld()
	defer w.Dispose()
	if c.Redial == "paced" {
		w.DialDelay = 3 * time.Millisecond
	}
	scn.Feed(w.Broker)
	env, err := scn.Start(w, scn.Config{Codec: c.Codec, PingMs: 10, PingTimeoutMs: 1000, CtxMs: 400, CloseTimeoutMs: 100})
	if err != nil {
		return ev.Failf("harness", "connect: %v", err)
	}
	env.SetHangLimit(5 * time.Second)
	stop := make(chan struct{})
	var cwg sync.WaitGroup
	cwg.Add(1)
	go func() {
		defer cwg.Done()
		start := time.Now()
		for _, ms := range c.Cuts {
			d := time.Duration(ms)*time.Millisecond - time.Since(start)
			if d > 0 {
				select {
				case <-time.After(d):
				case <-stop:
					return
				}
			}
			if l := w.CurrentLink(); l != nil {
				l.DrainThenSever(5 * time.Millisecond)
			}
		}
	}()
	// a concurrently acting broker: extra chunks / metadata to every known downstream while the programs run
	cwg.Add(1)
	go func() {
		defer cwg.Done()
		for i := uint32(100); ; i++ {
			select {
			case <-stop:
				return
			case <-time.After(300 * time.Microsecond):
			}
			inc := w.Broker.CurrentInc()
			if inc == nil || inc.Link.Dead() {
				continue
			}
			type target struct {
				alias   uint32
				filters []*message.DownstreamFilter
			}
			var ts []target
			ds := w.Broker.Downstreams()
			w.Broker.Lock()
			for _, d := range ds {
				if !d.Closed && d.Inc == inc.Index {
					ts = append(ts, target{d.Alias, d.OpenReq.DownstreamFilters})
				}
			}
			w.Broker.Unlock()
			for _, tg := range ts {
				scn.FeedDownstream(inc, tg.alias, tg.filters, i)
			}
		}
	}()
	env.Run(c.Programs)
	close(stop)
	cwg.Wait()
	sim.Call(5*time.Second, func() { env.Conn.Close(context.Background()) })
	overlapping := len(c.Programs) >= 2
	k.Label(fmt.Sprintf("goroutines=%d", len(c.Programs)))
	if len(c.Cuts) > 0 {
		k.Label("reconnect-overlapping-api-calls")
	}
	if overlapping {
		k.NonTrivial(ev.JSON(c))
	}
	k.Sample(func() any { return c })
	for _, r := range env.Records() {
		if r.Panic != "" {
			return ev.Failf("C09.2 panic", "%s %s panicked under the concurrent workload: %s", r.Op.Kind, r.Op.Obj, r.Panic)
		}
	}
	return nil
}

func genProgram(t *rapid.T, g int) []scn.Op {
	var ops []scn.Op
	n := rapid.IntRange(3, 14).Draw(t, "nops")
	names := []string{fmt.Sprintf("u%d", g), fmt.Sprintf("d%d", g), "shared-u", "shared-d"}
	for i := 0; i < n; i++ {
		kind := rapid.SampledFrom([]string{"open-up", "write", "write", "flush", "state", "close-up", "open-down", "read-data", "read-meta", "state", "close-down", "meta", "call", "call-wait", "recv-call", "sleep"}).Draw(t, "kind")
		op := scn.Op{Kind: kind, CtxMs: rapid.SampledFrom([]int{20, 100, 400}).Draw(t, "ctx")}
		switch kind {
		case "open-up", "write", "flush", "close-up":
			op.Obj = rapid.SampledFrom([]string{names[0], names[2]}).Draw(t, "obj")
			op.QoS = rapid.IntRange(0, 2).Draw(t, "qos")
			op.N = rapid.IntRange(1, 3).Draw(t, "n")
		case "open-down", "read-data", "read-meta", "close-down":
			op.Obj = rapid.SampledFrom([]string{names[1], names[3]}).Draw(t, "obj")
			op.QoS = rapid.IntRange(0, 2).Draw(t, "qos")
			if kind != "open-down" {
				op.CtxMs = 20
			}
		case "state":
			op.Obj = rapid.SampledFrom(names).Draw(t, "obj")
		case "sleep":
			op.N = rapid.IntRange(10, 2000).Draw(t, "us")
		case "recv-call":
			op.CtxMs = 10
		}
		ops = append(ops, op)
	}
	return ops
}

var sub = ev.Sub[Case]{Name: "workload", Repeats: 5, Q: 20, T: 500,
	Gen: func(t *rapid.T) Case {
		c := Case{Codec: rapid.SampledFrom([]string{"proto", "json"}).Draw(t, "codec"), Redial: rapid.SampledFrom([]string{"instant", "paced"}).Draw(t, "redial")}
		ng := rapid.IntRange(2, 8).Draw(t, "goroutines")
		for g := 0; g < ng; g++ {
			c.Programs = append(c.Programs, genProgram(t, g))
		}
		nc := rapid.IntRange(0, 2).Draw(t, "ncuts")
		for i := 0; i < nc; i++ {
			c.Cuts = append(c.Cuts, rapid.IntRange(0, 30).Draw(t, "cutms"))
		}
		return c
	}, Run: run}

func TestProp(t *testing.T)   { sub.Check(t) }
func TestReplay(t *testing.T) { ev.ReplayTest(t, sub) }
