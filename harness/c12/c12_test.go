// Package c12: decoders never crash on hostile bytes and accept only self-consistent messages;
// arbitrary frames into the wire connection's read path never panic, kill the process or hang.
package c12

import (
	"bytes"
	"context"
	"encoding/binary"
	"errors"
	"fmt"
	"reflect"
	"strings"
	"testing"
	"time"
	"unicode/utf8"

	"github.com/aptpod/iscp-go/encoding"
	ejson "github.com/aptpod/iscp-go/encoding/json"
	eproto "github.com/aptpod/iscp-go/encoding/protobuf"
	ierrors "github.com/aptpod/iscp-go/errors"
	"github.com/aptpod/iscp-go/message"
	"github.com/aptpod/iscp-go/transport"
	"github.com/aptpod/iscp-go/wire"
	"github.com/google/uuid"
	"pgregory.net/rapid"

	"verifharness/ev"
	"verifharness/msggen"
	"verifharness/sim"
)

func TestMain(m *testing.M) { ev.MainExit(m, "C12") }

var (
	pbEnc   = eproto.NewEncoding()
	jsonEnc = ejson.NewEncoding()
)

func encByName(n string) encoding.Encoding {
	if n == "json" {
		return jsonEnc
	}
	return pbEnc
}

// ---------------------------------------------------------------------------------------------
// decode targets

type DecodeCase struct {
	Codec string `json:"codec"`
	Input []byte `json:"input"`
	Note  string `json:"note,omitempty"`
}

func allStringsValid(v reflect.Value) bool {
	switch v.Kind() {
	case reflect.String:
		return utf8.ValidString(v.String())
	case reflect.Ptr, reflect.Interface:
		if v.IsNil() {
			return true
		}
		return allStringsValid(v.Elem())
	case reflect.Struct:
		for i := 0; i < v.NumField(); i++ {
			if !allStringsValid(v.Field(i)) {
				return false
			}
		}
	case reflect.Slice:
		if v.Type().Elem().Kind() == reflect.Uint8 {
			return true
		}
		for i := 0; i < v.Len(); i++ {
			if !allStringsValid(v.Index(i)) {
				return false
			}
		}
	case reflect.Map:
		for _, k := range v.MapKeys() {
			if !allStringsValid(v.MapIndex(k)) {
				return false
			}
		}
	}
	return true
}

// decodeGuard runs DecodeFrom with a watchdog and turns a caller-goroutine panic into a failure.
func decodeGuard(enc encoding.Encoding, in []byte) (m message.Message, err error, fail *ev.Failure) {
	type res struct {
		m   message.Message
		err error
		p   any
	}
	ch := make(chan res, 1)
	go func() {
		var r res
		defer func() {
			if p := recover(); p != nil {
				r.p = p
			}
			ch <- r
		}()
		_, r.m, r.err = enc.DecodeFrom(bytes.NewReader(in))
	}()
	select {
	case r := <-ch:
		if r.p != nil {
			return nil, nil, ev.Failf("C12.1 decoder-panic", "%s DecodeFrom panics on %d bytes: %v", enc.Name(), len(in), r.p)
		}
		return r.m, r.err, nil
	case <-time.After(20 * time.Second):
		return nil, nil, ev.Failf("C12.1 decoder-hang", "%s DecodeFrom did not return within 20 s on %d bytes", enc.Name(), len(in))
	}
}

func runDecode(c DecodeCase, k *ev.Case) *ev.Failure {
	enc := encByName(c.Codec)
	k.Label("codec=" + c.Codec)
	m, err, f := decodeGuard(enc, c.Input)
	if f != nil {
		return f
	}
	if err != nil {
		k.Label("rejected")
		if m != nil {
			return ev.Failf("C12.1 error-and-message", "%s returned both an error (%v) and a message %T", c.Codec, err, m)
		}
		if strings.Contains(err.Error(), "failed to") || strings.Contains(err.Error(), "malformed") {
			k.Label("reached-converter")
			k.NonTrivial(c.Codec + string(c.Input))
		}
		return nil
	}
	if m == nil || reflect.ValueOf(m).IsNil() {
		return ev.Failf("C12.1 nil-message", "%s returned neither an error nor a message for %d bytes", c.Codec, len(c.Input))
	}
	k.Label("accepted")
	k.Label("accepted=" + msggen.TypeName(m))
	k.NonTrivial(c.Codec + string(c.Input))
	k.Sample(func() any {
		return map[string]any{"codec": c.Codec, "input_len": len(c.Input), "decoded": fmt.Sprintf("%T", m), "note": c.Note}
	})
	// fixpoint in the same codec
	t1, cerr := msggen.Canon(m, false)
	if cerr != nil {
		return ev.Failf("C12.2 inconsistent-message", "%s produced a %T that cannot even be walked: %v", c.Codec, m, cerr)
	}
	var buf bytes.Buffer
	if _, err := enc.EncodeTo(&buf, m); err != nil {
		return ev.Failf("C12.2 not-reencodable", "%s decoded %d bytes into a %T that it cannot encode again: %v", c.Codec, len(c.Input), m, err)
	}
	m2, err, f := decodeGuard(enc, buf.Bytes())
	if f != nil {
		return f
	}
	if err != nil {
		return ev.Failf("C12.2 fixpoint", "%s cannot decode its own re-encoding of a %T: %v", c.Codec, m, err)
	}
	t2, cerr := msggen.Canon(m2, false)
	if cerr != nil {
		return ev.Failf("C12.2 fixpoint", "%v", cerr)
	}
	if d := msggen.Diff(t1, t2, msggen.TypeName(m)); d != "" {
		return ev.Failf("C12.2 fixpoint", "%s: message changes when encoded and decoded again: %s", c.Codec, d)
	}
	// and in the other codec (only meaningful when every string is valid UTF-8: JSON cannot carry anything else)
	if allStringsValid(reflect.ValueOf(m)) {
		other := jsonEnc
		if c.Codec == "json" {
			other = pbEnc
		}
		var b2 bytes.Buffer
		if _, err := other.EncodeTo(&b2, m); err != nil {
			return ev.Failf("C12.2 not-reencodable", "a %T accepted by %s cannot be encoded by %s: %v", m, c.Codec, other.Name(), err)
		}
		m3, err, f := decodeGuard(other, b2.Bytes())
		if f != nil {
			return f
		}
		if err != nil {
			return ev.Failf("C12.2 fixpoint", "%s cannot decode a %T accepted by %s: %v", other.Name(), m, c.Codec, err)
		}
		t3, _ := msggen.Canon(m3, false)
		if d := msggen.Diff(t1, t3, msggen.TypeName(m)); d != "" {
			return ev.Failf("C12.2 fixpoint", "message accepted by %s changes through %s: %s", c.Codec, other.Name(), d)
		}
	} else {
		k.Label("accepted-with-invalid-utf8")
	}
	return nil
}

// validEncoding draws a random valid message and encodes it.
func validEncoding(t *rapid.T, codec string) ([]byte, string) {
	p := msggen.Registry[rapid.IntRange(0, len(msggen.Registry)-1).Draw(t, "type")]
	m := msggen.BuildMessage(p, &smallChooser{t: t})
	var buf bytes.Buffer
	if _, err := encByName(codec).EncodeTo(&buf, m); err != nil {
		t.Fatalf("harness: cannot encode %T: %v", m, err)
	}
	return buf.Bytes(), msggen.TypeName(m)
}

// smallChooser builds small valid messages (corpus entries).
type smallChooser struct{ t *rapid.T }

func (s *smallChooser) Leaf(path string, k msggen.Kind, typ reflect.Type) reflect.Value {
	t := s.t
	switch k {
	case msggen.KString:
		return reflect.ValueOf(rapid.SampledFrom([]string{"", "a", "node-1", "日本", "x/y:z"}).Draw(t, "s"))
	case msggen.KBytes:
		return reflect.ValueOf(rapid.SliceOfN(rapid.Byte(), 0, 6).Draw(t, "b"))
	case msggen.KUint:
		v := reflect.New(typ).Elem()
		switch typ.Kind() {
		case reflect.Int, reflect.Int32, reflect.Int64:
			v.SetInt(int64(rapid.IntRange(-2, 300).Draw(t, "i")))
		default:
			v.SetUint(uint64(rapid.IntRange(0, 255).Draw(t, "u")))
		}
		return v
	case msggen.KBool:
		return reflect.ValueOf(rapid.Bool().Draw(t, "bool"))
	case msggen.KDurationSec, msggen.KDurationMs, msggen.KDurationNs:
		return reflect.ValueOf(time.Duration(rapid.IntRange(0, 100).Draw(t, "d")) * time.Second)
	case msggen.KTimeOrZero, msggen.KTime:
		return reflect.ValueOf(time.Unix(int64(rapid.IntRange(0, 2000000000).Draw(t, "time")), 0).UTC())
	case msggen.KUUID:
		var u uuid.UUID
		copy(u[:], rapid.SliceOfN(rapid.Byte(), 16, 16).Draw(t, "uuid"))
		return reflect.ValueOf(u)
	case msggen.KResultCode:
		return reflect.ValueOf(rapid.SampledFrom(msggen.ResultCodes).Draw(t, "rc"))
	case msggen.KQoS:
		return reflect.ValueOf(rapid.SampledFrom(msggen.QoSValues).Draw(t, "qos"))
	}
	panic("kind")
}
func (s *smallChooser) Len(string) int      { return rapid.IntRange(0, 2).Draw(s.t, "len") }
func (s *smallChooser) Present(string) bool { return rapid.Bool().Draw(s.t, "present") }
func (s *smallChooser) Variant(_ string, n int) int {
	return rapid.IntRange(0, n-1).Draw(s.t, "variant")
}

var hostileConstants = [][]byte{
	{}, {0x00}, {0xff}, {0x0a, 0x00}, {0x0a, 0xff, 0xff, 0xff, 0xff, 0x07}, // length prefix 0x7fffffff
	{0x0a, 0x02, 0x08}, {0x12, 0x7f}, {0xfa, 0xff, 0xff, 0xff, 0x0f, 0x01},
	[]byte("{}"), []byte("null"), []byte("[]"), []byte(`{"connectRequest":null}`), []byte(`{"connect_request":{}}`),
	[]byte(`{"upstream_chunk":{"stream_chunk":{"data_point_groups":[null]}}}`),
	[]byte(`{"downstream_chunk_ack":{"results":[null],"upstream_aliases":{"1":null},"data_id_aliases":{"1":null}}}`),
	[]byte(`{"upstream_open_response":{"assigned_stream_id":"AAAA","result_code":"SUCCEEDED"}}`),
	[]byte(`{"upstream_open_response":{"result_code":88}}`), []byte(`{"upstream_open_response":{"result_code":2147483647}}`),
	[]byte(`{"disconnect":{"result_code":"NO_SUCH_CODE"}}`), []byte(`{"ping":{"request_id":1},"pong":{"request_id":2}}`),
	[]byte(`{"upstream_open_request":{"qos":4}}`), []byte(`{"downstream_metadata":{}}`), []byte(`{"upstream_metadata":{}}`),
	[]byte(`{"downstream_chunk":{"stream_chunk":{}}}`), []byte(strings.Repeat("[", 20000)), []byte(strings.Repeat(`{"a":`, 20000)),
	[]byte(`{"connect_request":{"extension_fields":{"intdash":{"project_uuid":"not-a-uuid"}}}}`),
	[]byte("{\"upstream_call\":{\"call_id\":\"\xff\xfe\"}}"),
}

func mutate(t *rapid.T, raw []byte) ([]byte, string) {
	raw = append([]byte(nil), raw...)
	var notes []string
	n := rapid.IntRange(1, 4).Draw(t, "nmut")
	for i := 0; i < n; i++ {
		if len(raw) == 0 {
			raw = append(raw, rapid.Byte().Draw(t, "b0"))
			continue
		}
		pos := rapid.IntRange(0, len(raw)-1).Draw(t, "pos")
		switch rapid.IntRange(0, 8).Draw(t, "mut") {
		case 0:
			raw[pos] ^= 1 << uint(rapid.IntRange(0, 7).Draw(t, "bit"))
			notes = append(notes, "bitflip")
		case 1:
			raw[pos] = rapid.SampledFrom([]byte{0, 1, 0x7f, 0x80, 0xff, 4, 5, 63, 88, 91, 127, 132}).Draw(t, "const")
			notes = append(notes, "setbyte")
		case 2:
			raw = raw[:pos]
			notes = append(notes, "truncate")
		case 3:
			ins := rapid.SliceOfN(rapid.Byte(), 1, 4).Draw(t, "ins")
			raw = append(raw[:pos:pos], append(ins, raw[pos:]...)...)
			notes = append(notes, "insert")
		case 4:
			if pos+1 < len(raw) {
				raw = append(raw[:pos:pos], raw[pos+1:]...)
			}
			notes = append(notes, "delete")
		case 5: // splice with another position of itself
			q := rapid.IntRange(0, len(raw)-1).Draw(t, "q")
			raw = append(raw[:pos:pos], raw[q:]...)
			notes = append(notes, "splice")
		case 6: // varint blow-up
			raw = append(raw[:pos:pos], append([]byte{0xff, 0xff, 0xff, 0xff, 0x07}, raw[pos:]...)...)
			notes = append(notes, "varint")
		case 7: // shorten/extend a uuid-like 16-byte run
			if pos+2 < len(raw) && raw[pos] == 16 {
				raw[pos] = rapid.SampledFrom([]byte{15, 17, 0}).Draw(t, "uuidlen")
			}
			notes = append(notes, "uuidlen")
		case 8:
			raw = append(raw, raw...)
			notes = append(notes, "double")
		}
		if len(raw) > 1<<17 {
			raw = raw[:1<<17]
		}
	}
	return raw, strings.Join(notes, "+")
}

func genDecode(t *rapid.T) DecodeCase {
	c := DecodeCase{Codec: rapid.SampledFrom([]string{"proto", "json"}).Draw(t, "codec")}
	switch rapid.IntRange(0, 9).Draw(t, "kind") {
	case 0:
		c.Input = rapid.SliceOfN(rapid.Byte(), 0, 64).Draw(t, "random")
		c.Note = "random"
	case 1:
		c.Input = append([]byte(nil), hostileConstants[rapid.IntRange(0, len(hostileConstants)-1).Draw(t, "const")]...)
		c.Note = "constant"
	case 2:
		c.Input, c.Note = validEncoding(t, c.Codec)
		c.Note = "valid " + c.Note
	case 3: // the other codec's bytes
		o := "json"
		if c.Codec == "json" {
			o = "proto"
		}
		c.Input, _ = validEncoding(t, o)
		c.Note = "other-codec"
	default:
		raw, ty := validEncoding(t, c.Codec)
		var note string
		c.Input, note = mutate(t, raw)
		c.Note = "mutated " + ty + " " + note
	}
	if c.Input == nil {
		c.Input = []byte{}
	}
	return c
}

var subDecode = ev.Sub[DecodeCase]{Name: "decode", Q: 12000, T: 400000, Gen: genDecode, Run: runDecode}

func TestDecode(t *testing.T) { subDecode.Check(t) }

func TestConstants(t *testing.T) {
	if ev.ShardIndex() != 0 {
		t.Skip("shard 0")
	}
	for _, codec := range []string{"proto", "json"} {
		for _, in := range hostileConstants {
			subDecode.One(t, DecodeCase{Codec: codec, Input: in, Note: "constant"})
		}
	}
	// every prefix of a valid encoding of every message type
	for _, codec := range []string{"proto", "json"} {
		for _, p := range msggen.Registry {
			m := msggen.BuildMessage(p, fixedChooser{})
			var buf bytes.Buffer
			if _, err := encByName(codec).EncodeTo(&buf, m); err != nil {
				t.Fatalf("harness: encode %T: %v", m, err)
			}
			raw := buf.Bytes()
			for i := 0; i <= len(raw); i++ {
				if !subDecode.One(t, DecodeCase{Codec: codec, Input: append([]byte{}, raw[:i]...), Note: "prefix"}) {
					return
				}
			}
		}
	}
}

type fixedChooser struct{}

func (fixedChooser) Leaf(path string, k msggen.Kind, typ reflect.Type) reflect.Value {
	switch k {
	case msggen.KString:
		return reflect.ValueOf("s")
	case msggen.KBytes:
		return reflect.ValueOf([]byte{1, 2})
	case msggen.KUint:
		v := reflect.New(typ).Elem()
		switch typ.Kind() {
		case reflect.Int, reflect.Int32, reflect.Int64:
			v.SetInt(5)
		default:
			v.SetUint(5)
		}
		return v
	case msggen.KBool:
		return reflect.ValueOf(true)
	case msggen.KDurationSec, msggen.KDurationMs, msggen.KDurationNs:
		return reflect.ValueOf(3 * time.Second)
	case msggen.KTimeOrZero, msggen.KTime:
		return reflect.ValueOf(time.Unix(1700000000, 5).UTC())
	case msggen.KUUID:
		return reflect.ValueOf(uuid.UUID{1, 2, 3, 4, 5, 6, 7, 8, 9, 10, 11, 12, 13, 14, 15, 16})
	case msggen.KResultCode:
		return reflect.ValueOf(message.ResultCodeProcessFailed)
	case msggen.KQoS:
		return reflect.ValueOf(message.QoSPartial)
	}
	panic("kind")
}
func (fixedChooser) Len(string) int          { return 1 }
func (fixedChooser) Present(string) bool     { return true }
func (fixedChooser) Variant(string, int) int { return 0 }

// native fuzz targets (thorough tier)
func fuzzDecode(f *testing.F, codec string) {
	for _, p := range msggen.Registry {
		m := msggen.BuildMessage(p, fixedChooser{})
		var buf bytes.Buffer
		encByName(codec).EncodeTo(&buf, m)
		f.Add(buf.Bytes())
	}
	for _, h := range hostileConstants {
		if len(h) < 4096 {
			f.Add(h)
		}
	}
	f.Fuzz(func(t *testing.T, in []byte) {
		c := DecodeCase{Codec: codec, Input: in, Note: "native-fuzz"}
		k := ev.Begin("decode-fuzz")
		if fl := runDecode(c, k); fl != nil {
			ev.Report("decode", c, fl)
			t.Fatalf("%s: %s", fl.Clause, fl.Message)
		}
	})
}

func FuzzDecodeProtobuf(f *testing.F) { fuzzDecode(f, "proto") }
func FuzzDecodeJSON(f *testing.F)     { fuzzDecode(f, "json") }

// ---------------------------------------------------------------------------------------------
// size gate of encoding.Transport

type GateCase struct {
	Codec string `json:"codec"`
	Size  int    `json:"size"`  // payload size of the message
	Delta int    `json:"delta"` // MaxMessageSize = len(encoding) + delta; -1000000 = unlimited (0)
	// Pad: bytes appended to the valid encoding inside the same frame (the gate is about the FRAME, whatever the codec makes of
	// it); PadKind: space | zero | brace. Garbage: the frame is Size undecodable bytes instead (limit = Size + Delta)
	Pad     int    `json:"pad,omitempty"`
	PadKind string `json:"pad_kind,omitempty"`
	Garbage bool   `json:"garbage,omitempty"`
}

type oneShot struct{ b []byte }

func (o *oneShot) Read() ([]byte, error)       { return o.b, nil }
func (o *oneShot) Write([]byte) error          { return nil }
func (o *oneShot) Close() error                { return nil }
func (o *oneShot) RxBytesCounterValue() uint64 { return 0 }
func (o *oneShot) TxBytesCounterValue() uint64 { return 0 }

var subGate = ev.Sub[GateCase]{Name: "size-gate", Q: 500, T: 10000,
	Gen: func(t *rapid.T) GateCase {
		c := GateCase{Codec: rapid.SampledFrom([]string{"proto", "json"}).Draw(t, "codec"), Size: rapid.IntRange(0, 5000).Draw(t, "size"),
			Delta: rapid.SampledFrom([]int{-1000000, -2, -1, 0, 1, 2, -50, 50}).Draw(t, "delta")}
		switch rapid.IntRange(0, 3).Draw(t, "shape") {
		case 0:
			c.Pad, c.PadKind = rapid.SampledFrom([]int{1, 3, 60, 5000, 100000}).Draw(t, "pad"), rapid.SampledFrom([]string{"space", "zero", "brace"}).Draw(t, "padkind")
		case 1:
			c.Garbage = true
		}
		return c
	},
	Run: func(c GateCase, k *ev.Case) *ev.Failure {
		enc := encByName(c.Codec)
		var buf bytes.Buffer
		enc.EncodeTo(&buf, &message.UpstreamCall{CallID: "c", Payload: bytes.Repeat([]byte{7}, c.Size)})
		raw := buf.Bytes()
		max := len(raw) + c.Delta
		if c.Delta == -1000000 {
			max = 0
		}
		if max < 0 {
			max = 1
		}
		valid := true
		if c.Garbage {
			raw, valid = bytes.Repeat([]byte{0xfb, 0x07}, c.Size/2+1), false
			max = len(raw) + c.Delta
			if c.Delta == -1000000 {
				max = 0
			}
			if max < 0 {
				max = 1
			}
		} else if c.Pad > 0 {
			pb := map[string]byte{"space": ' ', "zero": 0, "brace": '}'}[c.PadKind]
			raw, valid = append(append([]byte(nil), raw...), bytes.Repeat([]byte{pb}, c.Pad)...), false
		}
		k.NonTrivial(ev.JSON(c))
		k.Sample(func() any { return c })
		tr := encoding.NewTransport(&encoding.TransportConfig{Transport: &oneShot{raw}, Encoding: enc, MaxMessageSize: encoding.Size(max)})
		m, err := tr.Read()
		tooLarge := max > 0 && len(raw) > max
		if tooLarge {
			if err == nil {
				return ev.Failf("C12.3 size-gate", "a %d byte message passed MaxMessageSize=%d", len(raw), max)
			}
			if !errors.Is(err, ierrors.ErrMessageTooLarge) {
				return ev.Failf("C12.3 size-gate", "a %d byte message over MaxMessageSize=%d is rejected with %v, not the too-large error", len(raw), max, err)
			}
			return nil
		}
		if !valid {
			// a padded or undecodable frame within the limit: the codec may take or refuse it - but not as "too large"
			if err != nil && errors.Is(err, ierrors.ErrMessageTooLarge) {
				return ev.Failf("C12.3 size-gate", "a %d byte frame within MaxMessageSize=%d is rejected as too large", len(raw), max)
			}
			return nil
		}
		if err != nil {
			return ev.Failf("C12.3 size-gate", "a %d byte message within MaxMessageSize=%d is rejected: %v", len(raw), max, err)
		}
		if _, ok := m.(*message.UpstreamCall); !ok {
			return ev.Failf("C12.3 size-gate", "decoded %T", m)
		}
		return nil
	}}

func TestSizeGate(t *testing.T) { subGate.Check(t) }

// ---------------------------------------------------------------------------------------------
// arbitrary frames into a live wire.ClientConn

// Reaction tells the scripted broker what to do with the n-th request of the client.
type Reaction struct {
	Kind string `json:"kind"` // ok | confuse | garbage | silent | wrongid | dup
	With int    `json:"with"` // index into confusers
	Raw  []byte `json:"raw,omitempty"`
}

type FrameCase struct {
	Codec     string       `json:"codec"`
	Reactions []Reaction   `json:"reactions"`   // per client message (pings included), cyclic
	Unsol     []DecodeCase `json:"unsolicited"` // frames pushed right after the handshake
}

// confusers build a request-type message carrying the given id.
var confusers = []func(id uint32) message.Message{
	func(id uint32) message.Message { return &message.Pong{RequestID: message.RequestID(id)} },
	func(id uint32) message.Message { return &message.Ping{RequestID: message.RequestID(id)} },
	func(id uint32) message.Message {
		return &message.UpstreamOpenResponse{RequestID: message.RequestID(id), ResultCode: message.ResultCodeSucceeded, DataIDAliases: map[uint32]*message.DataID{}}
	},
	func(id uint32) message.Message {
		return &message.UpstreamCloseResponse{RequestID: message.RequestID(id), ResultCode: message.ResultCodeSucceeded}
	},
	func(id uint32) message.Message {
		return &message.DownstreamOpenResponse{RequestID: message.RequestID(id), ResultCode: message.ResultCodeSucceeded}
	},
	func(id uint32) message.Message {
		return &message.UpstreamMetadataAck{RequestID: message.RequestID(id), ResultCode: message.ResultCodeSucceeded}
	},
	func(id uint32) message.Message {
		return &message.DownstreamResumeResponse{RequestID: message.RequestID(id), ResultCode: message.ResultCodeSucceeded}
	},
	func(id uint32) message.Message {
		return &message.UpstreamResumeResponse{RequestID: message.RequestID(id), ResultCode: message.ResultCodeSucceeded}
	},
	func(id uint32) message.Message {
		return &message.DownstreamCloseResponse{RequestID: message.RequestID(id), ResultCode: message.ResultCodeSucceeded}
	},
	func(id uint32) message.Message {
		return &message.ConnectResponse{RequestID: message.RequestID(id), ResultCode: message.ResultCodeSucceeded}
	},
	func(id uint32) message.Message {
		return &message.UpstreamOpenRequest{RequestID: message.RequestID(id)}
	},
	func(id uint32) message.Message { return &message.ConnectRequest{RequestID: message.RequestID(id)} },
}

func runFrames(c FrameCase, k *ev.Case) *ev.Failure {
	ev.Journal("frames", c)
	enc := transport.EncodingNameProtobuf
	if c.Codec == "json" {
		enc = transport.EncodingNameJSON
	}
	link := sim.NewLink(0, transport.DialConfig{EncodingName: enc})
	b := sim.NewBroker()
	n := 0
	b.Hook = func(inc *sim.Inc, e *sim.Entry) sim.Verdict {
		req, ok := e.Msg.(message.Request)
		if !ok {
			return sim.Default
		}
		if _, isConnect := e.Msg.(*message.ConnectRequest); isConnect {
			return sim.Default
		}
		if len(c.Reactions) == 0 {
			return sim.Default
		}
		r := c.Reactions[n%len(c.Reactions)]
		n++
		id := req.GetRequestID()
		switch r.Kind {
		case "confuse":
			inc.Send(confusers[r.With%len(confusers)](id))
			return sim.Handled
		case "garbage":
			inc.SendRaw(r.Raw)
			return sim.Handled
		case "silent":
			return sim.Handled
		case "wrongid":
			inc.Send(confusers[r.With%len(confusers)](id + 2))
			return sim.Default
		case "dup":
			b.HandleDefault(inc, e)
			return sim.Default
		}
		return sim.Default
	}
	inc := b.Serve(link)
	defer link.Sever()
	etr := encoding.NewTransport(&encoding.TransportConfig{Transport: link.ClientTransport(), Encoding: encByName(c.Codec)})
	var conn *wire.ClientConn
	var err error
	ok, _ := sim.Call(5*time.Second, func() {
		conn, err = wire.Connect(&wire.ClientConnConfig{Transport: etr, PingInterval: 20 * time.Millisecond, PingTimeout: 200 * time.Millisecond, NodeID: "n"})
	})
	if !ok {
		return ev.Failf("C12.4 hang", "wire.Connect did not return")
	}
	if err != nil {
		return ev.Failf("harness", "wire.Connect: %v", err)
	}
	defer conn.Close()
	for _, u := range c.Unsol {
		inc.SendRaw(u.Input)
	}
	type callRes struct {
		name  string
		panic any
		hung  bool
	}
	calls := []struct {
		name string
		f    func(ctx context.Context)
	}{
		{"SendUpstreamOpenRequest", func(ctx context.Context) {
			conn.SendUpstreamOpenRequest(ctx, &message.UpstreamOpenRequest{SessionID: "s", QoS: message.QoSReliable})
		}},
		{"SendDownstreamOpenRequest", func(ctx context.Context) {
			conn.SendDownstreamOpenRequest(ctx, &message.DownstreamOpenRequest{DesiredStreamIDAlias: 1, QoS: message.QoSReliable})
		}},
		{"SendUpstreamMetadata", func(ctx context.Context) {
			conn.SendUpstreamMetadata(ctx, &message.UpstreamMetadata{Metadata: &message.BaseTime{Name: "b", BaseTime: time.Unix(1, 0)}})
		}},
		{"SendUpstreamResumeRequest", func(ctx context.Context) {
			conn.SendUpstreamResumeRequest(ctx, &message.UpstreamResumeRequest{StreamID: uuid.UUID{1}}, message.QoSReliable)
		}},
		{"SendDownstreamResumeRequest", func(ctx context.Context) {
			conn.SendDownstreamResumeRequest(ctx, &message.DownstreamResumeRequest{StreamID: uuid.UUID{2}, DesiredStreamIDAlias: 2})
		}},
		{"SendUpstreamCloseRequest", func(ctx context.Context) {
			conn.SendUpstreamCloseRequest(ctx, &message.UpstreamCloseRequest{StreamID: uuid.UUID{1}})
		}},
		{"SendDownstreamCloseRequest", func(ctx context.Context) {
			conn.SendDownstreamCloseRequest(ctx, &message.DownstreamCloseRequest{StreamID: uuid.UUID{2}})
		}},
	}
	resCh := make(chan callRes, len(calls))
	for _, cl := range calls {
		cl := cl
		go func() {
			r := callRes{name: cl.name}
			done := make(chan struct{})
			go func() {
				defer close(done)
				defer func() {
					if p := recover(); p != nil {
						r.panic = p
					}
				}()
				ctx, cancel := context.WithTimeout(context.Background(), 150*time.Millisecond)
				defer cancel()
				cl.f(ctx)
			}()
			select {
			case <-done:
			case <-time.After(10 * time.Second):
				r.hung = true
			}
			resCh <- r
		}()
	}
	confused := false
	for _, r := range c.Reactions {
		if r.Kind == "confuse" {
			confused = true
		}
	}
	if confused {
		k.Label("type-confused-response")
	}
	k.NonTrivial(ev.JSON(c))
	k.Sample(func() any { return c })
	for range calls {
		r := <-resCh
		if r.panic != nil {
			return ev.Failf("C12.4 caller-panic", "%s panics when the broker answers its request id with another message type: %v", r.name, r.panic)
		}
		if r.hung {
			return ev.Failf("C12.4 hang", "%s did not return 10 s after its 150 ms context ended", r.name)
		}
	}
	// let the keepalive run a few rounds against the script (a panic there kills the process: journal + driver)
	time.Sleep(60 * time.Millisecond)
	return nil
}

func genFrames(t *rapid.T) FrameCase {
	c := FrameCase{Codec: rapid.SampledFrom([]string{"proto", "json"}).Draw(t, "codec")}
	n := rapid.IntRange(1, 10).Draw(t, "nreact")
	for i := 0; i < n; i++ {
		r := Reaction{Kind: rapid.SampledFrom([]string{"ok", "ok", "confuse", "confuse", "garbage", "silent", "wrongid", "dup"}).Draw(t, "kind"),
			With: rapid.IntRange(0, len(confusers)-1).Draw(t, "with")}
		if r.Kind == "garbage" {
			raw, _ := validEncoding(t, c.Codec)
			r.Raw, _ = mutate(t, raw)
		}
		c.Reactions = append(c.Reactions, r)
	}
	nu := rapid.IntRange(0, 4).Draw(t, "nunsol")
	for i := 0; i < nu; i++ {
		d := genDecode(t)
		c.Unsol = append(c.Unsol, d)
	}
	return c
}

var subFrames = ev.Sub[FrameCase]{Name: "frames", Q: 120, T: 3000, Gen: genFrames, Run: runFrames}

func TestFrames(t *testing.T) { subFrames.Check(t) }

func TestReplay(t *testing.T) { ev.ReplayTest(t, subDecode, subGate, subFrames) }

// TestRegress: repaired defects (known_findings.json, status fixed).
func TestRegress(t *testing.T) {
	if ev.ShardIndex() != 0 {
		t.Skip("shard 0")
	}
	subDecode.One(t, DecodeCase{Codec: "json", Input: []byte(`{"upstream_chunk":{"stream_chunk":{"data_point_groups":[null]}}}`)})
	subDecode.One(t, DecodeCase{Codec: "json", Input: []byte(`{"downstream_chunk":{"upstream_alias":1,"stream_chunk":{"data_point_groups":[null,null]}}}`)})
	for w := range confusers {
		subFrames.One(t, FrameCase{Codec: "proto", Reactions: []Reaction{{Kind: "confuse", With: w}}})
	}
}

// ---------------------------------------------------------------------------------------------
// systematic field sweep over valid protobuf encodings: every varint field of every message type (nested ones included) is set to
// every hostile number in turn, every length-delimited leaf to hostile lengths. Random byte mutation reaches a given nested enum
// with a given undefined number only by luck (seeded change C12/m3 hid behind that: an undefined result code next to a VALID
// stream id); the sweep reaches every one of them, each time.

type pbNode struct {
	num      uint64
	wt       uint64
	v        uint64 // varint / fixed value
	raw      []byte // length-delimited payload (leaf)
	children []*pbNode
	nested   bool
}

func pbParse(b []byte, depth int) ([]*pbNode, bool) {
	var out []*pbNode
	for len(b) > 0 {
		tag, n := binary.Uvarint(b)
		if n <= 0 {
			return nil, false
		}
		b = b[n:]
		nd := &pbNode{num: tag >> 3, wt: tag & 7}
		if nd.num == 0 {
			return nil, false
		}
		switch nd.wt {
		case 0:
			v, m := binary.Uvarint(b)
			if m <= 0 {
				return nil, false
			}
			nd.v, b = v, b[m:]
		case 1:
			if len(b) < 8 {
				return nil, false
			}
			nd.v, b = binary.LittleEndian.Uint64(b), b[8:]
		case 5:
			if len(b) < 4 {
				return nil, false
			}
			nd.v, b = uint64(binary.LittleEndian.Uint32(b)), b[4:]
		case 2:
			l, m := binary.Uvarint(b)
			if m <= 0 || uint64(len(b)-m) < l {
				return nil, false
			}
			nd.raw = append([]byte(nil), b[m:m+int(l)]...)
			b = b[m+int(l):]
			if depth < 8 && len(nd.raw) > 0 {
				if ch, ok := pbParse(nd.raw, depth+1); ok {
					nd.children, nd.nested = ch, true
				}
			}
		default:
			return nil, false
		}
		out = append(out, nd)
	}
	return out, true
}

func pbSerialize(ns []*pbNode) []byte {
	var out []byte
	for _, n := range ns {
		out = binary.AppendUvarint(out, n.num<<3|n.wt)
		switch n.wt {
		case 0:
			out = binary.AppendUvarint(out, n.v)
		case 1:
			out = binary.LittleEndian.AppendUint64(out, n.v)
		case 5:
			out = binary.LittleEndian.AppendUint32(out, uint32(n.v))
		case 2:
			p := n.raw
			if n.nested {
				p = pbSerialize(n.children)
			}
			out = binary.AppendUvarint(out, uint64(len(p)))
			out = append(out, p...)
		}
	}
	return out
}

// pbLeaves lists every node of the tree (pre-order).
func pbLeaves(ns []*pbNode, f func(*pbNode)) {
	for _, n := range ns {
		f(n)
		if n.nested {
			pbLeaves(n.children, f)
		}
	}
}

var hostileNumbers = []uint64{0, 1, 3, 4, 5, 63, 88, 91, 127, 132, 255, 1 << 20, 1<<31 - 1, 1 << 31, 1<<32 - 1, 1<<63 - 1, 1<<64 - 1}

func TestFieldSweep(t *testing.T) {
	idx, total := 0, 0
	for _, p := range msggen.Registry {
		m := msggen.BuildMessage(p, fixedChooser{})
		var buf bytes.Buffer
		if _, err := encByName("proto").EncodeTo(&buf, m); err != nil {
			t.Fatalf("harness: encode %T: %v", m, err)
		}
		tree, ok := pbParse(buf.Bytes(), 0)
		if !ok {
			t.Fatalf("harness: the walker cannot parse the valid encoding of %T", m)
		}
		if !bytes.Equal(pbSerialize(tree), buf.Bytes()) {
			t.Fatalf("harness: walker round trip of %T differs", m)
		}
		var nodes []*pbNode
		pbLeaves(tree, func(n *pbNode) { nodes = append(nodes, n) })
		for _, n := range nodes {
			idx++
			if idx%ev.NShards() != ev.ShardIndex() {
				continue
			}
			switch n.wt {
			case 0, 1, 5:
				old := n.v
				for _, h := range hostileNumbers {
					n.v = h
					total++
					if !subDecode.One(t, DecodeCase{Codec: "proto", Input: pbSerialize(tree), Note: fmt.Sprintf("sweep %s field %d := %d", msggen.TypeName(m), n.num, h)}) {
						n.v = old
						return
					}
				}
				n.v = old
			case 2:
				oldRaw, oldNested := n.raw, n.nested
				for _, alt := range [][]byte{nil, {0}, oldRaw[:len(oldRaw)/2], append(append([]byte(nil), oldRaw...), 0), bytes.Repeat([]byte{0xff}, 17), append(append([]byte(nil), oldRaw...), oldRaw...)} {
					n.raw, n.nested = alt, false
					total++
					if !subDecode.One(t, DecodeCase{Codec: "proto", Input: pbSerialize(tree), Note: fmt.Sprintf("sweep %s field %d := %d bytes", msggen.TypeName(m), n.num, len(alt))}) {
						n.raw, n.nested = oldRaw, oldNested
						return
					}
				}
				n.raw, n.nested = oldRaw, oldNested
			}
		}
	}
	ev.AddExtra("field_sweep_cases", int64(total))
}
