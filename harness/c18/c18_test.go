// Package c18: the reconnectable transport redials without losing, duplicating or reordering writes.
package c18

import (
	"errors"
	"fmt"
	"strings"
	"sync"
	"sync/atomic"
	"testing"
	"time"

	"github.com/aptpod/iscp-go/transport"
	"github.com/aptpod/iscp-go/transport/reconnect"
	"pgregory.net/rapid"

	"verifharness/ev"
	"verifharness/sim"
)

func TestMain(m *testing.M) { ev.MainExit(m, "C18") }

// IncPlan scripts one underlying connection.
type IncPlan struct {
	Handshake   string   `json:"handshake"`     // present | error  (only used for redials)
	FailWriteAt int      `json:"fail_write_at"` // the n-th Write call (1-based) fails and breaks the connection; 0 = never
	FailReadAt  int      `json:"fail_read_at"`  // after n inbound messages were read the connection breaks; 0 = never
	Inbound     []string `json:"inbound"`       // messages the peer sends ("ping" = control ping)
	// CloseError: closing this connection tears it down but reports an error (a half-broken socket): Close of the reconnectable
	// transport must be final all the same
	CloseError bool `json:"close_error,omitempty"`
	// SlowWriteUs: every Write on this connection takes that long before it is accepted (a congested link): reads fail and
	// redials happen WHILE a write is in progress (seeded change C18/m5: such a write was sent again on the next connection)
	SlowWriteUs int `json:"slow_write_us,omitempty"`
}

type Case struct {
	Incs        []IncPlan `json:"incs"`         // plan per successful dial (last one repeats if more are needed and !Exhaust)
	DialFails   []int     `json:"dial_fails"`   // 1-based dial attempt numbers (after the first dial) that fail
	Exhaust     bool      `json:"exhaust"`      // after Incs are used up every further dial fails (budget exhaustion)
	MaxAttempts int       `json:"max_attempts"` // MaxReconnectAttempts
	Writers     [][]int   `json:"writers"`      // per writer: sleep (us) before each write
	CloseAfter  int       `json:"close_after"`  // Close after that many accepted writes in total (0 = at the end)
}

type fakeTr struct {
	w       *world
	idx     int
	plan    IncPlan
	cfg     transport.DialConfig
	mu      sync.Mutex
	cond    *sync.Cond
	broken  bool
	closed  bool
	writes  int
	reads   int
	inbound []string
	hsDone  bool
}

type world struct {
	c        Case
	mu       sync.Mutex
	dials    []transport.DialConfig
	dialErrs []bool
	incs     []*fakeTr
	accepted []acc    // global order of accepted underlying writes
	handed   []string // non-control inbound messages handed to the library, in order
	pings    int
	exhaustT time.Time
	// logical clock: first underlying attempt per message, and the moment each Write call was issued
	tick      int64
	attemptAt map[string]int64
	callAt    map[string]int64
}

func (w *world) now() int64 { return atomic.AddInt64(&w.tick, 1) }

type acc struct {
	inc int
	msg string
}

func (w *world) Dial(cfg transport.DialConfig) (transport.Transport, error) {
	w.mu.Lock()
	defer w.mu.Unlock()
	n := len(w.dials) + 1
	w.dials = append(w.dials, cfg)
	fail := false
	for _, f := range w.c.DialFails {
		if f == n {
			fail = true
		}
	}
	if len(w.incs) >= len(w.c.Incs) && w.c.Exhaust {
		fail = true
	}
	w.dialErrs = append(w.dialErrs, fail)
	if fail {
		return nil, errors.New("fake: dial refused")
	}
	pi := len(w.incs)
	if pi >= len(w.c.Incs) {
		pi = len(w.c.Incs) - 1
	}
	plan := w.c.Incs[pi]
	if len(w.incs) >= len(w.c.Incs) {
		plan = IncPlan{Handshake: "present"} // healthy extra connection
	}
	t := &fakeTr{w: w, idx: len(w.incs), plan: plan, cfg: cfg, inbound: append([]string(nil), plan.Inbound...)}
	t.cond = sync.NewCond(&t.mu)
	if len(w.incs) == 0 {
		t.hsDone = true // the first connection has no reconnect handshake
	}
	w.incs = append(w.incs, t)
	return t, nil
}

func (t *fakeTr) Read() ([]byte, error) {
	t.mu.Lock()
	defer t.mu.Unlock()
	if !t.hsDone {
		t.hsDone = true
		if t.plan.Handshake == "error" {
			t.broken = true
			t.cond.Broadcast()
			return nil, transport.EOF
		}
		return []byte("reconnect-handshake"), nil
	}
	for {
		if t.closed {
			return nil, transport.ErrAlreadyClosed
		}
		if t.broken {
			return nil, transport.EOF
		}
		if t.plan.FailReadAt > 0 && t.reads >= t.plan.FailReadAt {
			t.broken = true
			t.cond.Broadcast()
			return nil, transport.EOF
		}
		if len(t.inbound) > 0 {
			m := t.inbound[0]
			t.inbound = t.inbound[1:]
			t.reads++
			t.w.mu.Lock()
			if m == "ping" {
				t.w.pings++
			} else {
				t.w.handed = append(t.w.handed, m)
			}
			t.w.mu.Unlock()
			return []byte(m), nil
		}
		t.cond.Wait()
	}
}

func (t *fakeTr) Write(b []byte) error {
	t.w.mu.Lock()
	if t.w.attemptAt == nil {
		t.w.attemptAt = map[string]int64{}
	}
	if _, seen := t.w.attemptAt[string(b)]; !seen {
		t.w.attemptAt[string(b)] = t.w.now()
	}
	t.w.mu.Unlock()
	t.mu.Lock()
	if t.closed || t.broken {
		t.mu.Unlock()
		return transport.ErrAlreadyClosed
	}
	t.writes++
	if t.plan.FailWriteAt > 0 && t.writes >= t.plan.FailWriteAt {
		t.broken = true
		t.cond.Broadcast()
		t.mu.Unlock()
		return errors.New("fake: write failed, connection broken")
	}
	t.w.mu.Lock()
	t.w.accepted = append(t.w.accepted, acc{t.idx, string(b)})
	t.w.mu.Unlock()
	t.mu.Unlock()
	// the connection has taken the bytes; on a congested link the call returns only later - possibly after the read side has
	// failed and the transport has been replaced
	if t.plan.SlowWriteUs > 0 {
		time.Sleep(time.Duration(t.plan.SlowWriteUs) * time.Microsecond)
	}
	return nil
}

func (t *fakeTr) Close() error { return t.CloseWithStatus(transport.CloseStatusNormal) }
func (t *fakeTr) CloseWithStatus(transport.CloseStatus) error {
	t.mu.Lock()
	t.closed = true
	t.cond.Broadcast()
	t.mu.Unlock()
	if t.plan.CloseError {
		return errors.New("fake: close reports an error (connection was half-broken)")
	}
	return nil
}
func (t *fakeTr) RxBytesCounterValue() uint64                         { return 0 }
func (t *fakeTr) TxBytesCounterValue() uint64                         { return 0 }
func (t *fakeTr) AsUnreliable() (transport.UnreliableTransport, bool) { return nil, false }
func (t *fakeTr) NegotiationParams() transport.NegotiationParams      { return t.cfg.NegotiationParams() }
func (t *fakeTr) Name() transport.Name                                { return "fake" }

type writeRec struct {
	Msg string
	Err string
	Dur time.Duration
}

const slack = 3 * time.Second

func run(c Case, k *ev.Case) *ev.Failure {
	w := &world{c: c}
	var tr *reconnect.Transport
	var err error
	ok, _ := sim.Call(10*time.Second, func() {
		tr, err = reconnect.Dial(reconnect.DialConfig{Dialer: w, DialConfig: transport.DialConfig{Address: "x", EncodingName: "proto"},
			MaxReconnectAttempts: c.MaxAttempts, ReconnectInterval: time.Millisecond})
	})
	if !ok {
		return ev.Failf("C18.6 hang", "reconnect.Dial did not return")
	}
	if err != nil {
		// the very first dial failed for the whole budget: legitimate
		k.Label("initial-dial-failed")
		return nil
	}
	recs := make([][]writeRec, len(c.Writers))
	var wg sync.WaitGroup
	hung := make(chan string, 16)
	var acceptedTotal int
	var accMu sync.Mutex
	closeOnce := sync.Once{}
	doClose := func() {
		closeOnce.Do(func() {
			if ok, _ := sim.Call(slack, func() { tr.Close() }); !ok {
				hung <- "Close"
			}
		})
	}
	for wi := range c.Writers {
		wg.Add(1)
		go func(wi int) {
			defer wg.Done()
			for n, us := range c.Writers[wi] {
				if us > 0 {
					time.Sleep(time.Duration(us) * time.Microsecond)
				}
				msg := fmt.Sprintf("w%d-%03d", wi, n)
				var werr error
				t0 := time.Now()
				w.mu.Lock()
				if w.callAt == nil {
					w.callAt = map[string]int64{}
				}
				w.callAt[msg] = w.now()
				w.mu.Unlock()
				ok, _ := sim.Call(10*time.Second, func() { werr = tr.Write([]byte(msg)) })
				if !ok {
					hung <- fmt.Sprintf("Write %s", msg)
					return
				}
				r := writeRec{Msg: msg, Dur: time.Since(t0)}
				if werr != nil {
					r.Err = werr.Error()
				} else {
					accMu.Lock()
					acceptedTotal++
					doit := c.CloseAfter > 0 && acceptedTotal == c.CloseAfter
					accMu.Unlock()
					if doit {
						doClose()
					}
				}
				recs[wi] = append(recs[wi], r)
			}
		}(wi)
	}
	var got []string
	var readErr error
	readDone := make(chan struct{})
	go func() {
		defer close(readDone)
		for {
			b, err := tr.Read()
			if err != nil {
				readErr = err
				return
			}
			got = append(got, string(b))
		}
	}()
	wdone := make(chan struct{})
	go func() { wg.Wait(); close(wdone) }()
	select {
	case <-wdone:
	case h := <-hung:
		return ev.Failf("C18.6 hang", "%s did not return within 10 s (connections used: %d, dial attempts: %d)", h, len(w.incs), len(w.dials))
	}
	select {
	case h := <-hung:
		return ev.Failf("C18.6 hang", "%s did not return", h)
	default:
	}
	// quiescence: all handed inbound messages read, all pings answered. The first 2 s are the normal budget; when it is not
	// reached by then the wait goes on for up to 20 s more, so that a starved process (machine under load) is told apart from a
	// message that is really gone: reaching quiescence late is counted (timing_inconclusive), never reaching it is judged below.
	start := time.Now()
	deadline := start.Add(22 * time.Second)
	reached := false
	for time.Now().Before(deadline) {
		w.mu.Lock()
		handed, pings := len(w.handed), w.pings
		pongs := 0
		for _, a := range w.accepted {
			if a.msg == "pong" {
				pongs++
			}
		}
		var cur *fakeTr
		if len(w.incs) > 0 {
			cur = w.incs[len(w.incs)-1]
		}
		w.mu.Unlock()
		died := false
		select {
		case <-readDone:
			died = true
			deadline = time.Now()
		default:
		}
		if cur != nil && !died {
			// not quiescent while (a) the newest connection is broken, closed, about to break at its next read, or has not
			// completed its handshake - a redial is in progress or about to start (closing the transport now would race with it:
			// an earlier version did, and reported messages and pongs of the NEXT connection as lost under load) - or (b) the live
			// connection still has inbound messages the library has not read yet
			cur.mu.Lock()
			aboutToBreak := cur.plan.FailReadAt > 0 && cur.reads >= cur.plan.FailReadAt
			unsettled := cur.broken || cur.closed || !cur.hsDone || aboutToBreak
			pending := len(cur.inbound) > 0
			cur.mu.Unlock()
			if unsettled || pending {
				time.Sleep(200 * time.Microsecond)
				continue
			}
			// the counters are read again AFTER the look at the connection: a Read holds the connection's lock while it counts the
			// message it hands over, so "nothing pending" seen above implies the counts below include everything handed over. (An
			// earlier version read the counts first and could miss a ping taken in between - 1 false alarm in 300 000 thorough cases
			// under load.) A newer connection may have appeared meanwhile: then look again.
			w.mu.Lock()
			handed, pings = len(w.handed), w.pings
			pongs = 0
			for _, a := range w.accepted {
				if a.msg == "pong" {
					pongs++
				}
			}
			newer := w.incs[len(w.incs)-1] != cur
			w.mu.Unlock()
			if newer {
				continue
			}
		}
		if len(got) >= handed && pongs >= pings {
			reached = true
			break
		}
		time.Sleep(time.Millisecond)
	}
	if reached && time.Since(start) > 2*time.Second {
		k.Label("late-quiescence")
		ev.TimingInconclusive()
	}
	diedByItself := false
	select {
	case <-readDone:
		diedByItself = true // the transport gave up (budget exhausted) before we closed it
	default:
	}
	if diedByItself {
		// "when the redial budget is exhausted, pending AND LATER Reads fail instead of blocking" - before anybody calls Close
		// (seeded change C18/m6: the pending Read got the error, the next one blocked for good)
		// (messages that were already buffered may still be handed out - they are checked with the rest below - but the buffer is
		// finite and an error must follow; no Read blocks)
		errs := 0
		for i := 0; i < 1100 && errs < 2; i++ {
			var lerr error
			var b []byte
			if ok, _ := sim.Call(slack, func() { b, lerr = tr.Read() }); !ok {
				return ev.Failf("C18.6 hang", "the transport gave up (redial budget exhausted) and the pending Read failed, but Read number %d after that blocks", i+1)
			}
			if lerr == nil {
				got = append(got, string(b))
				continue
			}
			errs++
		}
		if errs < 2 {
			return ev.Failf("C18.6 read-after-exhaustion", "after the transport gave up, 1100 further Reads returned messages and no error")
		}
		k.Label("reads-after-exhaustion")
	}
	doClose()
	select {
	case <-readDone:
	case <-time.After(slack):
		return ev.Failf("C18.6 hang", "a Read pending at Close did not return within %v", slack)
	}
	// later calls fail, promptly
	var lateW, lateR error
	if ok, _ := sim.Call(slack, func() { lateW = tr.Write([]byte("late")) }); !ok {
		return ev.Failf("C18.6 hang", "Write after Close did not return")
	}
	// A Read after Close may still hand out messages that were already buffered (the statement's point is
	// "instead of blocking"); they must be genuine and in order (checked below with the rest), and the
	// buffer is finite: an error must follow.
	for i := 0; i < 1100; i++ {
		var b []byte
		if ok, _ := sim.Call(slack, func() { b, lateR = tr.Read() }); !ok {
			return ev.Failf("C18.6 hang", "Read after Close did not return")
		}
		if lateR != nil {
			break
		}
		got = append(got, string(b))
		k.Label("buffered-read-after-close")
	}
	if lateW == nil {
		return ev.Failf("C18.6 write-after-close", "Write after Close returned nil")
	}
	w.mu.Lock()
	dialsAtClose := len(w.dials)
	w.mu.Unlock()
	time.Sleep(5 * time.Millisecond)
	w.mu.Lock()
	dialsLater := len(w.dials)
	w.mu.Unlock()
	if dialsLater > dialsAtClose {
		return ev.Failf("C18.6 redial-after-close", "the transport dialled again after Close had returned (%d -> %d dial attempts)", dialsAtClose, dialsLater)
	}
	if lateR == nil {
		return ev.Failf("C18.6 read-after-close", "Read after Close returned nil")
	}

	w.mu.Lock()
	defer w.mu.Unlock()
	hist := func() any {
		var a []string
		for _, x := range w.accepted {
			a = append(a, fmt.Sprintf("%d:%s", x.inc, x.msg))
		}
		re := ""
		if readErr != nil {
			re = readErr.Error()
		}
		return map[string]any{"accepted": a, "handed": w.handed, "read": got, "writes": recs, "dials": len(w.dials), "dial_failed": w.dialErrs,
			"read_error": re, "died_by_itself": diedByItself, "pings": w.pings}
	}
	// 1. exactly once / at most once
	count := map[string]int{}
	for _, a := range w.accepted {
		count[a.msg]++
	}
	exhausted := diedByItself
	for _, rs := range recs {
		for _, r := range rs {
			n := count[r.Msg]
			if r.Err == "" && n != 1 {
				return ev.Failf("C18.1 exactly-once", "Write(%s) returned nil but %d underlying connections accepted it", r.Msg, n).WithHistory(hist())
			}
			if r.Err != "" && n > 1 {
				return ev.Failf("C18.1 at-most-once", "Write(%s) returned an error but was accepted %d times", r.Msg, n).WithHistory(hist())
			}
			if r.Err != "" {
				exhausted = true // a write can only fail when the budget ran out (or after Close)
			}
		}
	}
	for m, n := range count {
		if m != "pong" && m != "late" && !strings.HasPrefix(m, "w") {
			return ev.Failf("C18.1 invented-write", "the underlying connection accepted %q (x%d) which nobody wrote", m, n).WithHistory(hist())
		}
	}
	// 2a. order of issue across writers: a message the transport was already trying to send before another Write was even called
	// was issued first, and has to be accepted first (seeded change C18/m3: after a redial the request in hand was put back at
	// the tail of the queue and overtaken by requests queued meanwhile)
	accIdx := map[string]int{}
	for i, a := range w.accepted {
		if _, seen := accIdx[a.msg]; !seen {
			accIdx[a.msg] = i
		}
	}
	for ma, ta := range w.attemptAt {
		ia, oka := accIdx[ma]
		if !oka || !strings.HasPrefix(ma, "w") {
			continue
		}
		for mb, tb := range w.callAt {
			if ib, okb := accIdx[mb]; okb && ta < tb && ib < ia {
				return ev.Failf("C18.2 order-of-issue", "%s was already being written to a connection before Write(%s) was called, yet %s was accepted first (positions %d and %d of the accepted log)", ma, mb, mb, ib, ia).WithHistory(hist())
			}
		}
	}
	// 2. per-writer order across incarnations (incarnations are used one after the other, so the global accepted log is the order)
	last := map[string]int{}
	lastInc := -1
	for _, a := range w.accepted {
		if a.inc < lastInc {
			return ev.Failf("C18.2 order", "an older connection (%d) accepted a write after a newer one (%d)", a.inc, lastInc).WithHistory(hist())
		}
		lastInc = a.inc
		if !strings.HasPrefix(a.msg, "w") {
			continue
		}
		var wi, n int
		fmt.Sscanf(a.msg, "w%d-%d", &wi, &n)
		key := fmt.Sprint(wi)
		if p, ok := last[key]; ok && n <= p {
			return ev.Failf("C18.2 order", "writer %d: message %d accepted after message %d", wi, n, p).WithHistory(hist())
		}
		last[key] = n
	}
	// 3. dial configuration
	var tid transport.TransportID
	for i, d := range w.dials {
		if i == 0 || (tid == "" && i > 0 && allFailedBefore(w.dialErrs, i)) {
			if d.Reconnect && allFailedBefore(w.dialErrs, i) && i == 0 {
				return ev.Failf("C18.3 reconnect-flag", "the first dial carries Reconnect=true").WithHistory(hist())
			}
		}
		if i == 0 {
			tid = d.TransportID
			if tid == "" {
				return ev.Failf("C18.3 transport-id", "the first dial has no transport id").WithHistory(hist())
			}
			continue
		}
		if d.TransportID != tid {
			return ev.Failf("C18.3 transport-id", "dial %d uses transport id %q, the first dial used %q", i+1, d.TransportID, tid).WithHistory(hist())
		}
	}
	// redials (every dial after the first connection exists) carry Reconnect == true
	firstOK := -1
	for i, f := range w.dialErrs {
		if !f {
			firstOK = i
			break
		}
	}
	for i, d := range w.dials {
		if firstOK >= 0 && i > firstOK && !d.Reconnect {
			return ev.Failf("C18.3 reconnect-flag", "redial %d does not set the reconnect flag", i+1).WithHistory(hist())
		}
		if i <= firstOK && d.Reconnect {
			return ev.Failf("C18.3 reconnect-flag", "initial dial attempt %d sets the reconnect flag", i+1).WithHistory(hist())
		}
	}
	// 4. reads: what the library returned is what the connections handed over, in order, once each
	if len(got) > len(w.handed) {
		return ev.Failf("C18.4 reads", "Read returned %d messages, the connections delivered %d: %v vs %v", len(got), len(w.handed), got, w.handed).WithHistory(hist())
	}
	for i := range got {
		if got[i] != w.handed[i] {
			return ev.Failf("C18.4 reads", "Read result %d is %q, the connections delivered %q at that position", i, got[i], w.handed[i]).WithHistory(hist())
		}
	}
	if len(got) < len(w.handed) && !exhausted && c.CloseAfter == 0 && !isExhaustErr(readErr) {
		return ev.Failf("C18.4 reads-lost", "the connections delivered %d messages but Read returned only %d before Close (22 s grace): missing %v", len(w.handed), len(got), w.handed[len(got):]).WithHistory(hist())
	}
	for _, g := range got {
		if g == "ping" || g == "reconnect-handshake" {
			return ev.Failf("C18.5 control-message-leaked", "Read returned the control message %q", g).WithHistory(hist())
		}
	}
	// 5. pongs
	pongs := count["pong"]
	if pongs > w.pings {
		return ev.Failf("C18.5 pong", "%d pongs written for %d pings", pongs, w.pings).WithHistory(hist())
	}
	if pongs < w.pings && !exhausted && c.CloseAfter == 0 && !isExhaustErr(readErr) {
		return ev.Failf("C18.5 pong", "%d control pings were read but only %d pongs were written (22 s grace)", w.pings, pongs).WithHistory(hist())
	}
	// classification
	fails := 0
	for _, p := range c.Incs {
		if p.FailWriteAt > 0 || p.FailReadAt > 0 {
			fails++
		}
	}
	if len(w.incs) > 1 {
		k.Label("redialled")
	}
	if exhausted || isExhaustErr(readErr) {
		k.Label("budget-exhausted")
	}
	if len(c.DialFails) > 0 {
		k.Label("failed-dial-attempt")
	}
	if w.pings > 0 {
		k.Label("control-ping")
	}
	k.Label(fmt.Sprintf("writers=%d", len(c.Writers)))
	if (len(w.incs) > 1 && len(c.Writers) >= 2) || len(c.DialFails) > 0 || exhausted || isExhaustErr(readErr) {
		k.NonTrivial(ev.JSON(c))
	}
	k.Sample(func() any { return map[string]any{"case": c, "history": hist()} })
	return nil
}

func isExhaustErr(err error) bool { return err != nil && strings.Contains(err.Error(), "reconnect") }

func allFailedBefore(errs []bool, i int) bool {
	for j := 0; j < i; j++ {
		if !errs[j] {
			return false
		}
	}
	return true
}

func gen(t *rapid.T) Case {
	c := Case{MaxAttempts: rapid.IntRange(1, 3).Draw(t, "max"), Exhaust: rapid.IntRange(0, 3).Draw(t, "exhaust") == 0}
	ni := rapid.IntRange(1, 4).Draw(t, "nincs")
	for i := 0; i < ni; i++ {
		p := IncPlan{Handshake: "present"}
		if i > 0 && rapid.IntRange(0, 5).Draw(t, "hserr") == 0 {
			p.Handshake = "error"
		}
		switch rapid.IntRange(0, 3).Draw(t, "failkind") {
		case 0:
			p.FailWriteAt = rapid.IntRange(1, 8).Draw(t, "failwrite")
		case 1:
			p.FailReadAt = rapid.IntRange(0, 4).Draw(t, "failread")
			if p.FailReadAt == 0 {
				p.FailReadAt = 1
			}
		case 2:
			p.FailWriteAt = rapid.IntRange(1, 8).Draw(t, "failwrite")
			p.FailReadAt = rapid.IntRange(1, 4).Draw(t, "failread")
		}
		nin := rapid.IntRange(0, 5).Draw(t, "ninbound")
		for j := 0; j < nin; j++ {
			if rapid.IntRange(0, 3).Draw(t, "isping") == 0 {
				p.Inbound = append(p.Inbound, "ping")
			} else {
				p.Inbound = append(p.Inbound, fmt.Sprintf("in-%d-%d", i, j))
			}
		}
		p.CloseError = rapid.IntRange(0, 3).Draw(t, "closeerr") == 0
		if rapid.IntRange(0, 2).Draw(t, "slowwrite") == 0 {
			p.SlowWriteUs = rapid.SampledFrom([]int{200, 1000, 3000}).Draw(t, "slowwriteus")
		}
		c.Incs = append(c.Incs, p)
	}
	if !c.Exhaust {
		// the last scripted connection is healthy so that the case can end
		c.Incs[len(c.Incs)-1].FailWriteAt, c.Incs[len(c.Incs)-1].FailReadAt = 0, 0
		if c.Incs[len(c.Incs)-1].Handshake == "error" && c.MaxAttempts < 2 {
			c.Incs[len(c.Incs)-1].Handshake = "present"
		}
	}
	nf := rapid.IntRange(0, 2).Draw(t, "ndialfails")
	for i := 0; i < nf; i++ {
		c.DialFails = append(c.DialFails, rapid.IntRange(2, 8).Draw(t, "dialfail"))
	}
	nw := rapid.IntRange(1, 4).Draw(t, "nwriters")
	for i := 0; i < nw; i++ {
		n := rapid.IntRange(1, 10).Draw(t, "nwrites")
		var ws []int
		for j := 0; j < n; j++ {
			ws = append(ws, rapid.SampledFrom([]int{0, 0, 0, 50, 300}).Draw(t, "sleep"))
		}
		c.Writers = append(c.Writers, ws)
	}
	if rapid.IntRange(0, 5).Draw(t, "closemid") == 0 {
		c.CloseAfter = rapid.IntRange(1, 6).Draw(t, "closeafter")
	}
	return c
}

var sub = ev.Sub[Case]{Name: "reconnect", Repeats: 30, Q: 400, T: 10000, Gen: gen, Run: run}

func TestProp(t *testing.T)   { sub.Check(t) }
func TestReplay(t *testing.T) { ev.ReplayTest(t, sub) }

// TestRegress: repaired defects (known_findings.json, status fixed).
func TestRegress(t *testing.T) {
	if ev.ShardIndex() != 0 {
		t.Skip("shard 0")
	}
	// C18-exhaustion-hang: budget exhausted inside the write loop with writes queued behind
	sub.One(t, Case{Incs: []IncPlan{{Handshake: "present", FailWriteAt: 2}}, Exhaust: true, MaxAttempts: 2,
		Writers: [][]int{{0, 0, 0, 0}, {0, 0, 0, 0}, {0, 0, 0}}})
}
