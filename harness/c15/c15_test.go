// Package c15: keepalive detects a dead peer in bounded time, never drops a live one, echoes ping ids,
// and announces the configured interval/timeout at whole-second resolution.
package c15

import (
	"context"
	"fmt"
	"sync"
	"sync/atomic"
	"testing"
	"time"

	"github.com/aptpod/iscp-go/encoding"
	eproto "github.com/aptpod/iscp-go/encoding/protobuf"
	"github.com/aptpod/iscp-go/iscp"
	"github.com/aptpod/iscp-go/message"
	"github.com/aptpod/iscp-go/transport"
	"github.com/aptpod/iscp-go/wire"
	"pgregory.net/rapid"

	"verifharness/ev"
	"verifharness/sim"
)

func TestMain(m *testing.M) { ev.MainExit(m, "C15") }

const slack = 2 * time.Second

// ---------------------------------------------------------------------------------------------
// timing cases (wire level and iscp level)

type Case struct {
	Level      string `json:"level"` // wire | iscp
	IntervalMs int    `json:"interval_ms"`
	TimeoutMs  int    `json:"timeout_ms"`
	Mode       string `json:"mode"`        // dead | live
	AnswerK    int    `json:"answer_k"`    // dead: pings answered before the peer falls silent
	LateFactor int    `json:"late_factor"` // dead: 0 = silent, else pongs come after LateFactor*timeout (>= 2)
	DelayPct   int    `json:"delay_pct"`   // live: pong delay in percent of the timeout (0, 25, 50)
	Traffic    bool   `json:"traffic"`
	BrokerPing []int  `json:"broker_pings"` // moments (ms) at which the broker sends its own pings
	// live only: at StallAtMs the peer stops reading for StallMs (the client's writes block: back-pressure) and sends Burst pings at
	// once; every one of them is still answered, in order, when the writes flow again (seeded change C15/m3: pings arriving while
	// the pong writer was blocked were dropped beyond a small queue)
	// live only: LateAnswerMs > 0: application requests (metadata) are issued with a context that ends after AbandonMs while the
	// broker answers them LateAnswerMs later: answers nobody waits for any more must not get in the way of the pongs (seeded change
	// C15/m5: such an answer blocked the dispatcher, the next ping timed out and a live peer was dropped)
	LateAnswerMs int `json:"late_answer_ms,omitempty"`
	AbandonMs    int `json:"abandon_ms,omitempty"`
	// dead only: closing the transport takes CloseDelayMs (a close handshake with a peer that is gone): the loss is announced when it
	// is detected, not when the close finally returns (seeded change C15/m6)
	CloseDelayMs int `json:"close_delay_ms,omitempty"`
	StallAtMs    int `json:"stall_at_ms,omitempty"`
	StallMs      int `json:"stall_ms,omitempty"`
	Burst        int `json:"burst,omitempty"`
}

type result struct {
	detect       time.Duration // from falling silent to detection (dead)
	closedEarly  bool          // live: the client gave up
	reconnected  bool
	disconnected int32
	pongsOK      string
	silentAt     time.Time
}

func runOnce(c Case) (*result, *ev.Failure) {
	interval := time.Duration(c.IntervalMs) * time.Millisecond
	timeout := time.Duration(c.TimeoutMs) * time.Millisecond
	res := &result{}
	var mu sync.Mutex
	answered := 0
	var silentAt time.Time
	w := sim.NewWorld()
	defer w.Dispose()
	b := w.Broker
	t0 := time.Now()
	silentAt = t0
	firstInc := int32(-1)
	b.Hook = func(inc *sim.Inc, e *sim.Entry) sim.Verdict {
		if _, isMeta := e.Msg.(*message.UpstreamMetadata); isMeta && c.LateAnswerMs > 0 && c.Mode == "live" {
			go func() {
				time.Sleep(time.Duration(c.LateAnswerMs) * time.Millisecond)
				b.HandleDefault(inc, e)
			}()
			return sim.Handled
		}
		p, ok := e.Msg.(*message.Ping)
		if !ok {
			return sim.Default
		}
		if c.Mode == "dead" {
			mu.Lock()
			if inc.Index == int(atomic.LoadInt32(&firstInc)) || atomic.LoadInt32(&firstInc) < 0 {
				if answered >= c.AnswerK {
					mu.Unlock()
					if c.LateFactor > 0 {
						go func() {
							time.Sleep(time.Duration(c.LateFactor) * timeout)
							inc.Send(&message.Pong{RequestID: p.RequestID})
						}()
					}
					return sim.Handled
				}
				answered++
				silentAt = time.Now() // the last answered ping: the peer is silent from here on
			}
			mu.Unlock()
			return sim.Default
		}
		// live peer: answer after a fraction of the timeout
		d := timeout * time.Duration(c.DelayPct) / 100
		if d == 0 {
			return sim.Default
		}
		go func() {
			time.Sleep(d)
			inc.Send(&message.Pong{RequestID: p.RequestID})
		}()
		return sim.Handled
	}
	var closedCh <-chan struct{}
	var wconn *wire.ClientConn
	var iconn *iscp.Conn
	reconnCh := make(chan struct{}, 4)
	if c.Level == "wire" {
		link := sim.NewLink(0, transport.DialConfig{EncodingName: transport.EncodingNameProtobuf})
		link.CloseDelay = time.Duration(c.CloseDelayMs) * time.Millisecond
		atomic.StoreInt32(&firstInc, 0)
		b.Serve(link)
		defer link.Sever()
		etr := encoding.NewTransport(&encoding.TransportConfig{Transport: link.ClientTransport(), Encoding: eproto.NewEncoding()})
		var err error
		mu.Lock()
		silentAt = time.Now()
		mu.Unlock()
		wconn, err = wire.Connect(&wire.ClientConnConfig{Transport: etr, PingInterval: interval, PingTimeout: timeout, NodeID: "n"})
		if err != nil {
			return nil, ev.Failf("harness", "wire.Connect: %v", err)
		}
		defer wconn.Close()
		closedCh = wconn.Closed()
	} else {
		atomic.StoreInt32(&firstInc, 0)
		var err error
		mu.Lock()
		silentAt = time.Now()
		mu.Unlock()
		iconn, err = w.Connect(iscp.WithConnPingInterval(interval), iscp.WithConnPingTimeout(timeout),
			iscp.WithConnDisconnectedEventHandler(iscp.DisconnectedEventHandlerFunc(func(*iscp.DisconnectedEvent) { atomic.AddInt32(&res.disconnected, 1) })),
			iscp.WithConnReconnectedEventHandler(iscp.ReconnectedEventHandlerFunc(func(*iscp.ReconnectedEvent) {
				select {
				case reconnCh <- struct{}{}:
				default:
				}
			})))
		if err != nil {
			return nil, ev.Failf("harness", "connect: %v", err)
		}
		defer sim.Call(5*time.Second, func() { iconn.Close(context.Background()) })
		closedCh = iconn.VerifWireConn().Closed()
	}
	stop := make(chan struct{})
	defer close(stop)
	// broker-originated pings with distinctive ids
	var bpIDs []uint32
	inc0 := b.Incs()[0]
	go func() {
		start := time.Now()
		for i, ms := range c.BrokerPing {
			d := time.Duration(ms)*time.Millisecond - time.Since(start)
			if d > 0 {
				select {
				case <-time.After(d):
				case <-stop:
					return
				}
			}
			id := uint32(900001 + 2*i)
			mu.Lock()
			bpIDs = append(bpIDs, id)
			mu.Unlock()
			inc0.Send(&message.Ping{RequestID: message.RequestID(id)})
		}
	}()
	if c.Burst > 0 && c.Mode == "live" {
		go func() {
			select {
			case <-time.After(time.Duration(c.StallAtMs) * time.Millisecond):
			case <-stop:
				return
			}
			inc0.Link.StallWrites()
			for i := 0; i < c.Burst; i++ {
				id := uint32(910001 + 2*i)
				mu.Lock()
				bpIDs = append(bpIDs, id)
				mu.Unlock()
				inc0.Send(&message.Ping{RequestID: message.RequestID(id)})
			}
			select {
			case <-time.After(time.Duration(c.StallMs) * time.Millisecond):
			case <-stop:
			}
			inc0.Link.ResumeWrites()
		}()
	}
	if c.LateAnswerMs > 0 && c.Mode == "live" {
		go func() {
			for i := 0; i < 6; i++ {
				select {
				case <-stop:
					return
				default:
				}
				ctx, cancel := sim.Ctx(time.Duration(c.AbandonMs) * time.Millisecond)
				if wconn != nil {
					wconn.SendUpstreamMetadata(ctx, &message.UpstreamMetadata{Metadata: &message.BaseTime{Name: "abandoned", BaseTime: time.Unix(1, 0)}})
				} else {
					iconn.SendMetadata(ctx, &message.BaseTime{Name: "abandoned", BaseTime: time.Unix(1, 0)})
				}
				cancel()
				time.Sleep(time.Duration(c.LateAnswerMs) * time.Millisecond)
			}
		}()
	}
	if c.Traffic {
		go func() {
			for i := 0; ; i++ {
				select {
				case <-stop:
					return
				default:
				}
				ctx, cancel := sim.Ctx(time.Second)
				if wconn != nil {
					wconn.SendUpstreamMetadata(ctx, &message.UpstreamMetadata{Metadata: &message.BaseTime{Name: "t", BaseTime: time.Unix(1, 0)}})
				} else {
					iconn.SendMetadata(ctx, &message.BaseTime{Name: "t", BaseTime: time.Unix(1, 0)})
				}
				cancel()
				time.Sleep(time.Millisecond)
			}
		}()
	}
	if c.Mode == "dead" {
		bound := interval + timeout + slack
		select {
		case <-closedCh:
			mu.Lock()
			res.detect = time.Since(silentAt)
			mu.Unlock()
		case <-time.After(time.Duration(c.AnswerK+1)*interval + bound + time.Second):
			mu.Lock()
			res.detect = time.Since(silentAt)
			mu.Unlock()
			return res, ev.Failf("C15.1 dead-peer-not-detected", "the peer has been silent for %v (interval %v, timeout %v) and the client still holds the connection", res.detect.Round(time.Millisecond), interval, timeout)
		}
		if res.detect > bound {
			return res, ev.Failf("C15.1 dead-peer-late", "dead peer detected %v after it fell silent; bound is interval %v + timeout %v + slack %v", res.detect.Round(time.Millisecond), interval, timeout, slack)
		}
		if c.Level == "iscp" {
			// recovery starts: a new ConnectRequest arrives
			dl := time.Now().Add(slack)
			for time.Now().Before(dl) && len(w.Links()) < 2 {
				time.Sleep(time.Millisecond)
			}
			if len(w.Links()) < 2 {
				return res, ev.Failf("C15.1 no-recovery", "the connection was declared lost but no redial happened within %v", slack)
			}
			res.reconnected = true
			dl = time.Now().Add(slack)
			for time.Now().Before(dl) && atomic.LoadInt32(&res.disconnected) == 0 {
				time.Sleep(time.Millisecond)
			}
			if atomic.LoadInt32(&res.disconnected) == 0 {
				return res, ev.Failf("C15.1 no-disconnected-event", "the connection was declared lost but the disconnected handler did not run within %v", slack)
			}
		}
		return res, nil
	}
	// live peer: 30 intervals without giving up
	watch := 30 * interval
	select {
	case <-closedCh:
		res.closedEarly = true
		return res, ev.Failf("C15.2 live-peer-dropped", "the peer answered every ping after %d%% of the %v timeout, yet the client closed the connection after %v", c.DelayPct, timeout, time.Since(t0).Round(time.Millisecond))
	case <-time.After(watch):
	}
	if c.Level == "iscp" && len(w.Links()) > 1 {
		return res, ev.Failf("C15.2 live-peer-dropped", "the client redialled although the peer answered every ping in time")
	}
	// every broker ping was answered by exactly one pong with the same id
	time.Sleep(2 * time.Millisecond)
	mu.Lock()
	ids := append([]uint32(nil), bpIDs...)
	mu.Unlock()
	pongs := map[uint32]int{}
	for _, e := range b.Ledger() {
		if p, ok := e.Msg.(*message.Pong); ok && e.In {
			pongs[uint32(p.RequestID)]++
		}
	}
	for _, id := range ids {
		if pongs[id] != 1 {
			return res, ev.Failf("C15.3 pong-echo", "broker ping with request id %d was answered by %d pongs with that id (all pong ids seen: %v)", id, pongs[id], keys(pongs))
		}
		delete(pongs, id)
	}
	if len(pongs) != 0 {
		return res, ev.Failf("C15.3 pong-echo", "the client sent pongs with request ids the broker never used: %v", keys(pongs))
	}
	return res, nil
}

func keys(m map[uint32]int) []uint32 {
	var r []uint32
	for k := range m {
		r = append(r, k)
	}
	return r
}

func run(c Case, k *ev.Case) *ev.Failure {
	k.Label("level=" + c.Level)
	k.Label("mode=" + c.Mode)
	if c.Traffic {
		k.Label("traffic")
	}
	if (c.Mode == "dead" && c.AnswerK >= 1) || (c.Mode == "live" && c.DelayPct > 0 && c.Traffic) {
		k.NonTrivial(ev.JSON(c))
	}
	k.Sample(func() any { return c })
	// confirmation protocol: a timing observation is only reported when it re-occurs in 3 consecutive runs
	var last *ev.Failure
	for attempt := 0; attempt < 3; attempt++ {
		_, f := runOnce(c)
		if f == nil {
			if attempt > 0 {
				ev.TimingInconclusive()
			}
			return nil
		}
		if f.Clause == "harness" || f.Clause == "C15.3 pong-echo" {
			return f
		}
		last = f
	}
	return last
}

func gen(t *rapid.T) Case {
	c := Case{Level: rapid.SampledFrom([]string{"wire", "wire", "iscp"}).Draw(t, "level"), Traffic: rapid.Bool().Draw(t, "traffic")}
	if rapid.Bool().Draw(t, "dead") {
		c.Mode = "dead"
		c.IntervalMs = rapid.SampledFrom([]int{20, 35, 50, 100}).Draw(t, "interval")
		c.TimeoutMs = rapid.SampledFrom([]int{20, 35, 50, 100}).Draw(t, "timeout")
		c.AnswerK = rapid.IntRange(0, 5).Draw(t, "k")
		c.LateFactor = rapid.SampledFrom([]int{0, 0, 2, 3}).Draw(t, "late")
		if c.Level == "wire" && rapid.IntRange(0, 5).Draw(t, "slowclose") == 0 {
			c.CloseDelayMs = 3000
		}
	} else {
		c.Mode = "live"
		c.IntervalMs = rapid.SampledFrom([]int{20, 35, 50}).Draw(t, "interval")
		c.TimeoutMs = rapid.SampledFrom([]int{200, 400}).Draw(t, "timeout") // wide margin keeps the oracle sound under load
		c.DelayPct = rapid.SampledFrom([]int{0, 25, 50}).Draw(t, "delay")
		n := rapid.IntRange(0, 5).Draw(t, "nbp")
		for i := 0; i < n; i++ {
			c.BrokerPing = append(c.BrokerPing, rapid.IntRange(0, 25*c.IntervalMs).Draw(t, "at"))
		}
		if rapid.IntRange(0, 2).Draw(t, "lateanswer") == 0 {
			c.AbandonMs = rapid.SampledFrom([]int{1, 5, 15}).Draw(t, "abandon")
			c.LateAnswerMs = c.AbandonMs + rapid.SampledFrom([]int{10, 40, 90}).Draw(t, "lateby")
			c.Traffic = false // the ordinary traffic loop uses 1 s deadlines and would queue behind the late answers
		}
		if rapid.IntRange(0, 2).Draw(t, "stall") == 0 {
			c.TimeoutMs = 400
			c.StallAtMs = rapid.IntRange(0, 10*c.IntervalMs).Draw(t, "stallat")
			c.StallMs = rapid.SampledFrom([]int{20, 60, 100}).Draw(t, "stallms")
			c.Burst = rapid.SampledFrom([]int{3, 12, 30}).Draw(t, "burst")
		}
	}
	return c
}

var sub = ev.Sub[Case]{Name: "keepalive", Repeats: 3, Q: 10, T: 300, Gen: gen, Run: run}

func TestProp(t *testing.T) { sub.Check(t) }

// ---------------------------------------------------------------------------------------------
// announced values

type AnnounceCase struct {
	Level      string `json:"level"`
	IntervalMs int64  `json:"interval_ms"`
	TimeoutMs  int64  `json:"timeout_ms"`
}

func runAnnounce(c AnnounceCase, k *ev.Case) *ev.Failure {
	interval := time.Duration(c.IntervalMs) * time.Millisecond
	timeout := time.Duration(c.TimeoutMs) * time.Millisecond
	w := sim.NewWorld()
	defer w.Dispose()
	if c.Level == "wire" {
		link := sim.NewLink(0, transport.DialConfig{EncodingName: transport.EncodingNameProtobuf})
		w.Broker.Serve(link)
		defer link.Sever()
		etr := encoding.NewTransport(&encoding.TransportConfig{Transport: link.ClientTransport(), Encoding: eproto.NewEncoding()})
		conn, err := wire.Connect(&wire.ClientConnConfig{Transport: etr, PingInterval: interval, PingTimeout: timeout, NodeID: "n"})
		if err != nil {
			return ev.Failf("harness", "connect: %v", err)
		}
		conn.Close()
	} else {
		conn, err := w.Connect(iscp.WithConnPingInterval(interval), iscp.WithConnPingTimeout(timeout))
		if err != nil {
			return ev.Failf("harness", "connect: %v", err)
		}
		sim.Call(5*time.Second, func() { conn.Close(context.Background()) })
	}
	var cr *message.ConnectRequest
	for _, e := range w.Broker.Ledger() {
		if m, ok := e.Msg.(*message.ConnectRequest); ok {
			cr = m
			break
		}
	}
	if cr == nil {
		return ev.Failf("harness", "no connect request")
	}
	wantI, wantT := interval.Truncate(time.Second), timeout.Truncate(time.Second)
	if interval == 0 {
		wantI = 10 * time.Second
	}
	if timeout == 0 {
		wantT = time.Second
	}
	k.NonTrivial(ev.JSON(c))
	k.Sample(func() any { return c })
	if cr.PingInterval != wantI || cr.PingTimeout != wantT {
		return ev.Failf("C15.4 announced-values", "%s: configured interval %v / timeout %v, connect request announces %v / %v (expected %v / %v)", c.Level, interval, timeout, cr.PingInterval, cr.PingTimeout, wantI, wantT)
	}
	return nil
}

var subAnnounce = ev.Sub[AnnounceCase]{Name: "announce", Run: runAnnounce, Gen: func(t *rapid.T) AnnounceCase { return AnnounceCase{} }}

func TestAnnounce(t *testing.T) {
	if ev.ShardIndex() != 0 {
		t.Skip("shard 0")
	}
	vals := []int64{0, 999, 1000, 1500, 2900, 10000, 90 * 60 * 1000, 59999, 4294967295000}
	ok := true
	for _, lvl := range []string{"wire", "iscp"} {
		for _, i := range vals {
			for _, to := range vals {
				ok = subAnnounce.One(t, AnnounceCase{lvl, i, to}) && ok
			}
		}
	}
	ev.SetExhaustive("announce-grid", ok)
}

func TestReplay(t *testing.T) { ev.ReplayTest(t, sub, subAnnounce) }

var _ = fmt.Sprint
