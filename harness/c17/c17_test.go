// Package c17: negotiation parameters round-trip through every carrier; invalid sets are rejected
// rather than misread; the derived compression configuration is a function of the parameters alone.
package c17

import (
	"encoding/binary"
	"encoding/hex"
	"encoding/json"
	"fmt"
	"net/url"
	"reflect"
	"sort"
	"strconv"
	"strings"
	"testing"
	"unicode/utf8"

	"github.com/aptpod/iscp-go/transport"
	"github.com/aptpod/iscp-go/transport/compress"
	tquic "github.com/aptpod/iscp-go/transport/quic"
	twebsocket "github.com/aptpod/iscp-go/transport/websocket"
	twebtransport "github.com/aptpod/iscp-go/transport/webtransport"
	"pgregory.net/rapid"

	"verifharness/ev"
)

func TestMain(m *testing.M) { ev.MainExit(m, "C17") }

// ---------------------------------------------------------------------------------------------
// case types

// Params is a JSON-friendly mirror of transport.NegotiationParams.
type Params struct {
	Enc     string `json:"enc"`
	Comp    string `json:"comp"`
	Level   *int   `json:"level"`
	Win     *int   `json:"win"`
	Reconn  bool   `json:"reconnect"`
	TID     string `json:"tid"`
	TGID    string `json:"tgid"`
	TGCount int    `json:"tgcount"`
	TGIdx   int    `json:"tgidx"`
}

func (p Params) lib() transport.NegotiationParams {
	return transport.NegotiationParams{
		Encoding: transport.EncodingName(p.Enc), Compress: compress.Type(p.Comp), CompressLevel: cp(p.Level),
		CompressWindowBits: cp(p.Win), TransportID: transport.TransportID(p.TID), Reconnect: p.Reconn,
		TransportGroupID: transport.TransportGroupID(p.TGID), TransportGroupTotalCount: p.TGCount, TransportGroupIndex: p.TGIdx,
	}
}

func cp(p *int) *int {
	if p == nil {
		return nil
	}
	v := *p
	return &v
}

func fromLib(p transport.NegotiationParams) Params {
	return Params{Enc: string(p.Encoding), Comp: string(p.Compress), Level: cp(p.CompressLevel), Win: cp(p.CompressWindowBits),
		Reconn: p.Reconnect, TID: string(p.TransportID), TGID: string(p.TransportGroupID), TGCount: p.TransportGroupTotalCount,
		TGIdx: p.TransportGroupIndex}
}

func ip(v int) *int { return &v }

func pstr(p *int) string {
	if p == nil {
		return "nil"
	}
	return strconv.Itoa(*p)
}

func (p Params) key() string {
	return fmt.Sprintf("%s|%s|%s|%s|%v|%s|%s|%d|%d", p.Enc, p.Comp, pstr(p.Level), pstr(p.Win), p.Reconn, p.TID, p.TGID, p.TGCount, p.TGIdx)
}

// ---------------------------------------------------------------------------------------------
// carriers

type carrier struct {
	name      string
	roundTrip func(p transport.NegotiationParams) (transport.NegotiationParams, error)
}

var carriers = []carrier{
	{"keyvalues", func(p transport.NegotiationParams) (transport.NegotiationParams, error) {
		kv, err := p.MarshalKeyValues()
		if err != nil {
			return p, fmt.Errorf("marshal: %w", err)
		}
		var out transport.NegotiationParams
		err = out.UnmarshalKeyValues(kv)
		return out, err
	}},
	{"websocket-url", func(p transport.NegotiationParams) (transport.NegotiationParams, error) {
		w := twebsocket.NegotiationParams{NegotiationParams: p}
		vals, err := w.MarshalURLValues()
		if err != nil {
			return p, fmt.Errorf("marshal: %w", err)
		}
		// through a real query string, as the dialer and the server do
		parsed, err := url.ParseQuery(vals.Encode())
		if err != nil {
			return p, fmt.Errorf("query: %w", err)
		}
		var out twebsocket.NegotiationParams
		err = out.UnmarshalURLValues(parsed)
		return out.NegotiationParams, err
	}},
	{"webtransport-url", func(p transport.NegotiationParams) (transport.NegotiationParams, error) {
		w := twebtransport.NegotiationParams{NegotiationParams: p}
		vals, err := w.MarshalURLValues()
		if err != nil {
			return p, fmt.Errorf("marshal: %w", err)
		}
		parsed, err := url.ParseQuery(vals.Encode())
		if err != nil {
			return p, fmt.Errorf("query: %w", err)
		}
		var out twebtransport.NegotiationParams
		err = out.UnmarshalURLValues(parsed)
		return out.NegotiationParams, err
	}},
	{"quic-binary", func(p transport.NegotiationParams) (transport.NegotiationParams, error) {
		q := tquic.NegotiationParams{NegotiationParams: p}
		b, err := q.Marshal()
		if err != nil {
			return p, fmt.Errorf("marshal: %w", err)
		}
		// independent reading of the binary form must find the same pairs the key/value form has
		ref := refParseBinary(b)
		if ref.bad != "" {
			return p, fmt.Errorf("binary form produced by Marshal is malformed for an independent reader: %s", ref.bad)
		}
		var out tquic.NegotiationParams
		err = out.Unmarshal(b)
		return out.NegotiationParams, err
	}},
}

// ---------------------------------------------------------------------------------------------
// sub-check 1: round trip of valid parameter sets through every carrier (grid + random)

type RTCase struct {
	P       Params `json:"p"`
	Carrier string `json:"carrier"`
}

func validSet(p Params) bool {
	switch p.Enc {
	case "", "json", "proto":
	default:
		return false
	}
	switch p.Comp {
	case "", "per-message", "context-takeover":
	default:
		return false
	}
	if p.Level != nil && (*p.Level < 0 || *p.Level > 9) {
		return false
	}
	if p.Win != nil && (*p.Win < 0 || *p.Win > 32) {
		return false
	}
	return utf8.ValidString(p.TID) && utf8.ValidString(p.TGID)
}

func runRT(c RTCase, k *ev.Case) *ev.Failure {
	var car *carrier
	for i := range carriers {
		if carriers[i].name == c.Carrier {
			car = &carriers[i]
		}
	}
	if car == nil {
		return ev.Failf("harness", "unknown carrier %q", c.Carrier)
	}
	k.Label("carrier=" + c.Carrier)
	k.NonTrivial(c.Carrier + "|" + c.P.key())
	k.Sample(func() any { return c })
	in := c.P.lib()
	out, err := car.roundTrip(in)
	if err != nil {
		return ev.Failf("C17.1 round-trip", "valid set %s does not survive %s: %v", c.P.key(), c.Carrier, err)
	}
	if got := fromLib(out); !reflect.DeepEqual(got, c.P) {
		return ev.Failf("C17.1 round-trip", "%s: sent %s, got %s", c.Carrier, ev.JSON(c.P), ev.JSON(got))
	}
	v := out
	if err := v.Validate(); err != nil {
		return ev.Failf("C17.1 validate", "valid set %s rejected after %s: %v", c.P.key(), c.Carrier, err)
	}
	// Validate may only fill in the default level; it must not change anything else
	after := fromLib(v)
	exp := c.P
	if exp.Level == nil && exp.Comp != "" {
		exp.Level = ip(transport.DefaultCompressionLevel)
	}
	if !reflect.DeepEqual(after, exp) {
		return ev.Failf("C17.1 validate", "Validate changed the set: before %s after %s", ev.JSON(c.P), ev.JSON(after))
	}
	return nil
}

var subRT = ev.Sub[RTCase]{
	Name: "roundtrip", Q: 3000, T: 60000,
	Gen: func(t *rapid.T) RTCase {
		return RTCase{P: genValidParams(t), Carrier: carriers[rapid.IntRange(0, len(carriers)-1).Draw(t, "carrier")].name}
	},
	Run: runRT,
}

func genString(t *rapid.T, label string) string {
	switch rapid.IntRange(0, 5).Draw(t, label+"kind") {
	case 0:
		return ""
	case 1:
		return rapid.StringMatching(`[a-z0-9-]{1,12}`).Draw(t, label)
	case 2:
		return rapid.String().Draw(t, label) // arbitrary valid UTF-8 incl. non-ASCII, control characters
	case 3:
		return rapid.SampledFrom([]string{"true", "false", "null", "0", "\"", "a=b&c=d", "%41", "+", " ", "日本語", "\u0000", "{}", "[]"}).Draw(t, label)
	case 4:
		return strings.Repeat(rapid.StringN(1, 4, 8).Draw(t, label), rapid.IntRange(1, 3000).Draw(t, label+"n"))
	default:
		return rapid.StringN(0, 40, 200).Draw(t, label)
	}
}

func genOptInt(t *rapid.T, label string, lo, hi int) *int {
	if rapid.IntRange(0, 4).Draw(t, label+"nil") == 0 {
		return nil
	}
	return ip(rapid.IntRange(lo, hi).Draw(t, label))
}

func genValidParams(t *rapid.T) Params {
	p := Params{
		Enc:    rapid.SampledFrom([]string{"", "json", "proto"}).Draw(t, "enc"),
		Comp:   rapid.SampledFrom([]string{"", "per-message", "context-takeover"}).Draw(t, "comp"),
		Level:  genOptInt(t, "level", 0, 9),
		Win:    genOptInt(t, "win", 0, 32),
		Reconn: rapid.Bool().Draw(t, "reconnect"),
		TID:    genString(t, "tid"),
		TGID:   genString(t, "tgid"),
	}
	if rapid.Bool().Draw(t, "group") {
		p.TGCount = rapid.IntRange(0, 1<<31-1).Draw(t, "tgcount")
		p.TGIdx = rapid.IntRange(0, 1<<31-1).Draw(t, "tgidx")
	}
	return p
}

// TestGrid enumerates the finite grid named in the property exhaustively (shard 0 only).
func TestGrid(t *testing.T) {
	if ev.ShardIndex() != 0 {
		t.Skip("grid runs in shard 0")
	}
	levels := []*int{nil}
	for l := 0; l <= 9; l++ {
		levels = append(levels, ip(l))
	}
	wins := []*int{nil, ip(0), ip(1), ip(8), ip(15), ip(32)}
	n := 0
	for _, enc := range []string{"", "json", "proto"} {
		for _, comp := range []string{"", "per-message", "context-takeover"} {
			for _, lv := range levels {
				for _, w := range wins {
					for _, rc := range []bool{false, true} {
						for g := 0; g < 16; g++ {
							p := Params{Enc: enc, Comp: comp, Level: lv, Win: w, Reconn: rc}
							if g&1 != 0 {
								p.TID = "tid-1"
							}
							if g&2 != 0 {
								p.TGID = "group-1"
							}
							if g&4 != 0 {
								p.TGCount = 3
							}
							if g&8 != 0 {
								p.TGIdx = 2
							}
							for _, car := range carriers {
								n++
								if !subRT.One(t, RTCase{P: p, Carrier: car.name}) {
									return
								}
							}
							if !subDerive.One(t, DeriveCase{P: p, Bases: gridBases}) {
								return
							}
						}
					}
				}
			}
		}
	}
	ev.SetExhaustive("roundtrip-grid", true)
	ev.SetExtra("grid_cells_x_carriers", int64(n))
}

func TestRoundTrip(t *testing.T) { subRT.Check(t) }

// ---------------------------------------------------------------------------------------------
// sub-check 2: arbitrary key/value maps are rejected or read faithfully

type KV struct {
	K string
	V string
}

// JSON form keeps arbitrary bytes exact: valid UTF-8 as text, anything else as hex.
type kvJSON struct {
	K  *string `json:"k,omitempty"`
	V  *string `json:"v,omitempty"`
	KX *string `json:"k_hex,omitempty"`
	VX *string `json:"v_hex,omitempty"`
}

func (kv KV) MarshalJSON() ([]byte, error) {
	var j kvJSON
	if utf8.ValidString(kv.K) {
		j.K = &kv.K
	} else {
		x := hex.EncodeToString([]byte(kv.K))
		j.KX = &x
	}
	if utf8.ValidString(kv.V) {
		j.V = &kv.V
	} else {
		x := hex.EncodeToString([]byte(kv.V))
		j.VX = &x
	}
	return json.Marshal(j)
}

func (kv *KV) UnmarshalJSON(b []byte) error {
	var j kvJSON
	if err := json.Unmarshal(b, &j); err != nil {
		return err
	}
	if j.K != nil {
		kv.K = *j.K
	}
	if j.V != nil {
		kv.V = *j.V
	}
	if j.KX != nil {
		x, err := hex.DecodeString(*j.KX)
		if err != nil {
			return err
		}
		kv.K = string(x)
	}
	if j.VX != nil {
		x, err := hex.DecodeString(*j.VX)
		if err != nil {
			return err
		}
		kv.V = string(x)
	}
	return nil
}

type KVCase struct {
	Pairs   []KV   `json:"pairs"` // as a list: duplicates matter for url.Values and the binary form
	Carrier string `json:"carrier"`
	// bytes (base64 via JSON) for the raw binary carrier
	Raw []byte `json:"raw,omitempty"`
}

var knownKeys = []string{"enc", "comp", "clevel", "cwinbits", "tid", "reconnect", "tgid", "tgcount", "tgidx"}

func isKnownKey(k string) bool {
	for _, x := range knownKeys {
		if x == k {
			return true
		}
	}
	return false
}

// caseVariantOfKnown reports keys that encoding/json would match case-insensitively; the statement does not
// say what must happen to them, so the oracle makes no demand on the fields they could reach.
func caseVariantOfKnown(k string) (string, bool) {
	for _, x := range knownKeys {
		if k != x && strings.EqualFold(k, x) {
			return x, true
		}
	}
	return "", false
}

func genKVPairs(t *rapid.T) []KV {
	n := rapid.IntRange(0, 8).Draw(t, "npairs")
	res := make([]KV, 0, n)
	for i := 0; i < n; i++ {
		var k string
		switch rapid.IntRange(0, 9).Draw(t, "keykind") {
		case 0:
			k = rapid.String().Draw(t, "key")
		case 1:
			k = ""
		case 2:
			k = rapid.SampledFrom([]string{"ENC", "Comp", "cLevel", "TID", "Reconnect", "encoding", "enc ", " enc"}).Draw(t, "key")
		case 3:
			k = string(rapid.SliceOfN(rapid.Byte(), 1, 6).Draw(t, "keybytes")) // may be invalid UTF-8
		default:
			k = rapid.SampledFrom(knownKeys).Draw(t, "key")
		}
		var v string
		switch k {
		case "enc":
			v = rapid.SampledFrom([]string{"", "json", "proto", "JSON", "protobuf", "xml", "proto ", "\u0000"}).Draw(t, "v")
		case "comp":
			v = rapid.SampledFrom([]string{"", "per-message", "context-takeover", "permessage", "gzip", "Per-Message", "none"}).Draw(t, "v")
		case "clevel", "cwinbits", "tgcount", "tgidx":
			switch rapid.IntRange(0, 5).Draw(t, "numkind") {
			case 0:
				v = strconv.Itoa(rapid.IntRange(-3, 40).Draw(t, "num"))
			case 1:
				v = strconv.FormatInt(rapid.Int64().Draw(t, "num64"), 10)
			case 2:
				v = rapid.SampledFrom([]string{"", " 6", "6 ", "06", "+6", "6.0", "1e1", "0x6", "six", "null", "true", "\"6\"", "-0", "9", "10", "32", "33", "-1", "99999999999999999999", "6\n", "٦"}).Draw(t, "numstr")
			default:
				v = strconv.Itoa(rapid.IntRange(0, 12).Draw(t, "numsmall"))
			}
		case "reconnect":
			v = rapid.SampledFrom([]string{"true", "false", "", "1", "0", "TRUE", "True", "t", "yes", "null", " true"}).Draw(t, "v")
		default:
			if rapid.IntRange(0, 5).Draw(t, "valkind") == 0 {
				v = string(rapid.SliceOfN(rapid.Byte(), 0, 8).Draw(t, "valbytes")) // may be invalid UTF-8
			} else {
				v = genString(t, "val")
			}
		}
		res = append(res, KV{k, v})
	}
	if n > 0 && rapid.IntRange(0, 5).Draw(t, "dup") == 0 {
		res = append(res, KV{res[0].K, rapid.SampledFrom([]string{res[0].V, "other"}).Draw(t, "dupv")})
	}
	return res
}

// expectation computed independently from the pairs
type expect struct {
	mustReject string            // non-empty: the statement demands rejection, with the reason
	vals       map[string]string // exact known keys -> value
	fuzzy      map[string]bool   // fields reachable through a case-variant key (no demand)
}

func analyse(pairs []KV, carrier string) expect {
	e := expect{vals: map[string]string{}, fuzzy: map[string]bool{}}
	// Which structural defects a carrier must reject is taken from the carrier's own documented format:
	// the binary form and the URL form define keys (non-empty, unique); the binary form also defines the
	// text as UTF-8. The plain key/value map has no format of its own; there the demand is only
	// "not misread" (checked by checkFaithful).
	structural := carrier != "keyvalues"
	utf8Demanded := carrier == "quic-binary"
	seen := map[string]int{}
	for _, kv := range pairs {
		seen[kv.K]++
		if structural && kv.K == "" && e.mustReject == "" {
			e.mustReject = "empty key"
		}
		if utf8Demanded && (!utf8.ValidString(kv.K) || !utf8.ValidString(kv.V)) && e.mustReject == "" {
			e.mustReject = "invalid UTF-8 in " + strconv.Quote(kv.K)
		}
		if f, ok := caseVariantOfKnown(kv.K); ok {
			e.fuzzy[f] = true
		}
		if isKnownKey(kv.K) {
			e.vals[kv.K] = kv.V
			// The integer fields travel as JSON ",string" values: the text "null" there is JSON null, which
			// encoding/json defines as "leave the field unset". The statement lists malformed *keys*, not this
			// value, so the oracle treats it as the field being absent (observation recorded in DESIGN.md).
			switch kv.K {
			case "clevel", "cwinbits", "tgcount", "tgidx":
				if kv.V == "null" {
					delete(e.vals, kv.K)
				}
			}
		}
	}
	for k, n := range seen {
		if structural && n > 1 && e.mustReject == "" {
			e.mustReject = "duplicated key " + strconv.Quote(k)
		}
	}
	if e.mustReject != "" {
		return e
	}
	if v, ok := e.vals["enc"]; ok && v != "" && v != "json" && v != "proto" {
		e.mustReject = "unknown encoding " + strconv.Quote(v)
	} else if v, ok := e.vals["comp"]; ok && v != "" && v != "per-message" && v != "context-takeover" {
		e.mustReject = "unknown compression type " + strconv.Quote(v)
	} else if v, ok := e.vals["clevel"]; ok {
		if n, err := strconv.Atoi(v); err == nil && (n < 0 || n > 9) {
			e.mustReject = "level outside 0-9: " + v
		}
	}
	if e.mustReject == "" {
		if v, ok := e.vals["cwinbits"]; ok {
			if n, err := strconv.Atoi(v); err == nil && (n < 0 || n > 32) {
				e.mustReject = "window bits outside 0-32: " + v
			}
		}
	}
	return e
}

// numEq: the accepted integer must be what the text denotes.
func numEq(text string, got int) bool {
	if n, err := strconv.Atoi(text); err == nil {
		return n == got
	}
	if f, err := strconv.ParseFloat(text, 64); err == nil {
		return f == float64(got)
	}
	return false
}

func checkFaithful(pairs []KV, e expect, p transport.NegotiationParams) *ev.Failure {
	mis := func(field, text string, got any) *ev.Failure {
		return ev.Failf("C17.2 misread", "%s: input %q accepted as %v (pairs %s)", field, text, got, ev.JSON(pairs))
	}
	strField := func(key string, got string) *ev.Failure {
		if e.fuzzy[key] {
			return nil
		}
		if v, ok := e.vals[key]; ok {
			if got != v {
				return mis(key, v, strconv.Quote(got))
			}
		} else if got != "" {
			return mis(key, "<absent>", strconv.Quote(got))
		}
		return nil
	}
	if f := strField("enc", string(p.Encoding)); f != nil {
		return f
	}
	if f := strField("comp", string(p.Compress)); f != nil {
		return f
	}
	if f := strField("tid", string(p.TransportID)); f != nil {
		return f
	}
	if f := strField("tgid", string(p.TransportGroupID)); f != nil {
		return f
	}
	optInt := func(key string, got *int, lo, hi int, defaulted bool) *ev.Failure {
		if e.fuzzy[key] {
			return nil
		}
		v, ok := e.vals[key]
		if !ok {
			if got != nil && !defaulted {
				return mis(key, "<absent>", *got)
			}
			return nil
		}
		if got == nil {
			return mis(key, v, "nil")
		}
		if !numEq(v, *got) {
			return mis(key, v, *got)
		}
		if *got < lo || *got > hi {
			return ev.Failf("C17.2 invalid-accepted", "%s=%d outside %d-%d was accepted (pairs %s)", key, *got, lo, hi, ev.JSON(pairs))
		}
		return nil
	}
	if f := optInt("clevel", p.CompressLevel, 0, 9, p.Compress != ""); f != nil {
		return f
	}
	if f := optInt("cwinbits", p.CompressWindowBits, 0, 32, false); f != nil {
		return f
	}
	plainInt := func(key string, got int) *ev.Failure {
		if e.fuzzy[key] {
			return nil
		}
		v, ok := e.vals[key]
		if !ok {
			if got != 0 {
				return mis(key, "<absent>", got)
			}
			return nil
		}
		if !numEq(v, got) {
			return mis(key, v, got)
		}
		return nil
	}
	if f := plainInt("tgcount", p.TransportGroupTotalCount); f != nil {
		return f
	}
	if f := plainInt("tgidx", p.TransportGroupIndex); f != nil {
		return f
	}
	if !e.fuzzy["reconnect"] {
		v, ok := e.vals["reconnect"]
		switch {
		case !ok && p.Reconnect:
			return mis("reconnect", "<absent>", true)
		case ok && v == "true" && !p.Reconnect:
			return mis("reconnect", v, false)
		case ok && v == "false" && p.Reconnect:
			return mis("reconnect", v, true)
		case ok && v != "true" && v != "false":
			return mis("reconnect", v, p.Reconnect)
		}
	}
	return nil
}

// refParseBinary is an independent reader of the documented QUIC binary form:
// repeated (u16 big-endian key length, key, u16 value length, value).
type refBinary struct {
	pairs []KV
	bad   string
}

func refParseBinary(b []byte) refBinary {
	var r refBinary
	for len(b) > 0 {
		if len(b) < 2 {
			r.bad = "truncated key length"
			return r
		}
		kl := int(binary.BigEndian.Uint16(b))
		b = b[2:]
		if len(b) < kl {
			r.bad = "truncated key"
			return r
		}
		k := string(b[:kl])
		b = b[kl:]
		if len(b) < 2 {
			r.bad = "truncated value length"
			return r
		}
		vl := int(binary.BigEndian.Uint16(b))
		b = b[2:]
		if len(b) < vl {
			r.bad = "truncated value"
			return r
		}
		r.pairs = append(r.pairs, KV{k, string(b[:vl])})
		b = b[vl:]
	}
	return r
}

func encodeBinary(pairs []KV) []byte {
	var res []byte
	for _, kv := range pairs {
		if len(kv.K) > 65535 || len(kv.V) > 65535 {
			continue
		}
		res = binary.BigEndian.AppendUint16(res, uint16(len(kv.K)))
		res = append(res, kv.K...)
		res = binary.BigEndian.AppendUint16(res, uint16(len(kv.V)))
		res = append(res, kv.V...)
	}
	return res
}

func runKV(c KVCase, k *ev.Case) *ev.Failure {
	pairs := c.Pairs
	var p transport.NegotiationParams
	var err error
	k.Label("carrier=" + c.Carrier)
	var structural string // rejection demanded by the carrier's own format
	switch c.Carrier {
	case "keyvalues":
		m := map[string]string{}
		for _, kv := range pairs { // a Go map cannot hold duplicates: last wins, and that IS the input
			m[kv.K] = kv.V
		}
		pairs = pairs[:0:0]
		keys := make([]string, 0, len(m))
		for kk := range m {
			keys = append(keys, kk)
		}
		sort.Strings(keys)
		for _, kk := range keys {
			pairs = append(pairs, KV{kk, m[kk]})
		}
		err = p.UnmarshalKeyValues(m)
	case "websocket-url", "webtransport-url":
		vals := url.Values{}
		for _, kv := range pairs {
			vals[kv.K] = append(vals[kv.K], kv.V)
		}
		if c.Carrier == "websocket-url" {
			var w twebsocket.NegotiationParams
			err = w.UnmarshalURLValues(vals)
			p = w.NegotiationParams
		} else {
			var w twebtransport.NegotiationParams
			err = w.UnmarshalURLValues(vals)
			p = w.NegotiationParams
		}
	case "quic-binary":
		raw := c.Raw
		if raw == nil {
			raw = encodeBinary(pairs)
		}
		ref := refParseBinary(raw)
		pairs = ref.pairs
		structural = ref.bad
		var q tquic.NegotiationParams
		err = q.Unmarshal(raw)
		p = q.NegotiationParams
	default:
		return ev.Failf("harness", "unknown carrier %q", c.Carrier)
	}
	e := analyse(pairs, c.Carrier)
	if structural != "" && e.mustReject == "" {
		e.mustReject = "malformed binary: " + structural
	}
	verr := error(nil)
	if err == nil {
		verr = p.Validate()
	}
	accepted := err == nil && verr == nil
	if accepted {
		k.Label("accepted")
		k.NonTrivial(c.Carrier + ev.JSON(pairs) + string(c.Raw))
	} else {
		k.Label("rejected")
	}
	k.Sample(func() any { return map[string]any{"case": c, "accepted": accepted} })
	if e.mustReject != "" {
		k.Label("must-reject")
		if accepted {
			if isKnownLevelWithoutComp(e, p) {
				ev.Excluded(1)
				return nil
			}
			return ev.Failf("C17.2 invalid-accepted", "%s: %s, yet Unmarshal and Validate accept it as %s (pairs %s)",
				c.Carrier, e.mustReject, ev.JSON(fromLib(p)), ev.JSON(pairs))
		}
		return nil
	}
	if !accepted {
		return nil // rejecting more than required is allowed ("rejected rather than misread")
	}
	return checkFaithful(pairs, e, p)
}

// isKnownLevelWithoutComp is the exact class of a (possibly) known finding; it is a no-op unless the
// finding is listed (see known.go).
func isKnownLevelWithoutComp(e expect, p transport.NegotiationParams) bool { return false }

var subKV = ev.Sub[KVCase]{
	Name: "keyvalues", Q: 6000, T: 150000,
	Gen: func(t *rapid.T) KVCase {
		c := KVCase{Pairs: genKVPairs(t), Carrier: carriers[rapid.IntRange(0, len(carriers)-1).Draw(t, "carrier")].name}
		return c
	},
	Run: runKV,
}

func TestKeyValues(t *testing.T) { subKV.Check(t) }

// arbitrary bytes and mutated valid encodings for the binary form
var subBin = ev.Sub[KVCase]{
	Name: "binary", Q: 6000, T: 150000,
	Gen: func(t *rapid.T) KVCase {
		var raw []byte
		switch rapid.IntRange(0, 3).Draw(t, "kind") {
		case 0:
			raw = rapid.SliceOfN(rapid.Byte(), 0, 64).Draw(t, "raw")
		default:
			q := tquic.NegotiationParams{NegotiationParams: genValidParams(t).lib()}
			b, err := q.Marshal()
			if err != nil {
				t.Fatalf("marshal: %v", err)
			}
			raw = append([]byte{}, b...)
			nm := rapid.IntRange(0, 3).Draw(t, "nmut")
			for i := 0; i < nm && len(raw) > 0; i++ {
				pos := rapid.IntRange(0, len(raw)-1).Draw(t, "pos")
				switch rapid.IntRange(0, 4).Draw(t, "mut") {
				case 0:
					raw[pos] = rapid.Byte().Draw(t, "b")
				case 1:
					raw = raw[:pos]
				case 2:
					raw = append(raw[:pos:pos], append([]byte{rapid.Byte().Draw(t, "ins")}, raw[pos:]...)...)
				case 3: // duplicate the whole encoding (duplicated keys)
					raw = append(raw, raw...)
				case 4:
					raw[pos] = 0xff
				}
			}
		}
		if len(raw) > 1<<16 {
			raw = raw[:1<<16]
		}
		if raw == nil {
			raw = []byte{}
		}
		return KVCase{Carrier: "quic-binary", Raw: raw}
	},
	Run: runKV,
}

func TestBinary(t *testing.T) { subBin.Check(t) }

// FuzzBinary is the native coverage-guided target (thorough tier only, driven by ./check).
func FuzzBinary(f *testing.F) {
	q := tquic.NegotiationParams{NegotiationParams: Params{Enc: "proto", Comp: "context-takeover", Level: ip(6), Win: ip(15), TID: "t", Reconn: true}.lib()}
	b, _ := q.Marshal()
	f.Add(b)
	f.Add([]byte{0, 3, 'e', 'n', 'c', 0, 4, 'j', 's', 'o', 'n'})
	f.Add([]byte{0, 6, 'c', 'l', 'e', 'v', 'e', 'l', 0, 2, '4', '2'})
	f.Fuzz(func(t *testing.T, raw []byte) {
		k := ev.Begin("binary-fuzz")
		if fl := runKV(KVCase{Carrier: "quic-binary", Raw: raw}, k); fl != nil {
			ev.Report("binary", KVCase{Carrier: "quic-binary", Raw: raw}, fl)
			t.Fatalf("%s: %s", fl.Clause, fl.Message)
		}
	})
}

// ---------------------------------------------------------------------------------------------
// sub-check 3: the derived compression configuration is a function of the parameters alone

type Base struct {
	Enable  bool `json:"enable"`
	Level   int  `json:"level"`
	Disable bool `json:"disable_takeover"`
	Win     int  `json:"win"`
}

func (b Base) lib() compress.Config {
	return compress.Config{Enable: b.Enable, Level: b.Level, DisableContextTakeover: b.Disable, WindowBits: b.Win}
}

type DeriveCase struct {
	P     Params `json:"p"`
	Bases []Base `json:"bases"`
}

var gridBases = []Base{{}, {true, 9, true, 32}, {true, 1, false, 8}, {false, 5, true, 15}}

type derived struct {
	Enable  bool
	Level   int
	Win     int
	Disable bool
}

func derive(p transport.NegotiationParams, b compress.Config) derived {
	c := p.CompressConfig(b)
	if !c.Enable {
		return derived{} // "Enable false: every other setting is ignored"
	}
	return derived{true, c.Level, c.WindowBits, c.DisableContextTakeover}
}

func runDerive(c DeriveCase, k *ev.Case) *ev.Failure {
	names := c.P.Comp != "" && c.P.Level != nil && c.P.Win != nil
	if !names {
		k.Label("does-not-name-all-three")
		return nil // outside the statement
	}
	k.Label("names-all-three")
	k.NonTrivial(c.P.key() + ev.JSON(c.Bases))
	k.Sample(func() any { return c })
	p := c.P.lib()
	var first derived
	for i, b := range c.Bases {
		d := derive(p, b.lib())
		if i == 0 {
			first = d
			continue
		}
		if d != first {
			return ev.Failf("C17.3 base-dependence", "params %s: base %s gives %+v but base %s gives %+v", c.P.key(), ev.JSON(c.Bases[0]), first, ev.JSON(b), d)
		}
	}
	// model of the documented meaning
	want := derived{}
	if *c.P.Level != 0 {
		want = derived{true, *c.P.Level, *c.P.Win, c.P.Comp == "per-message"}
	}
	if first != want {
		return ev.Failf("C17.3 derived-value", "params %s derive %+v, expected %+v", c.P.key(), first, want)
	}
	// the peer derives its settings from the marshalled parameters with its own base
	for _, car := range carriers {
		out, err := car.roundTrip(p)
		if err != nil {
			return ev.Failf("C17.1 round-trip", "%s: %v", car.name, err)
		}
		if verr := out.Validate(); verr != nil {
			return ev.Failf("C17.1 validate", "%s: %v", car.name, verr)
		}
		for _, b := range c.Bases {
			if d := derive(out, b.lib()); d != first {
				return ev.Failf("C17.3 peers-disagree", "params %s via %s: client derives %+v, peer with base %s derives %+v", c.P.key(), car.name, first, ev.JSON(b), d)
			}
		}
	}
	return nil
}

var subDerive = ev.Sub[DeriveCase]{
	Name: "derive", Q: 3000, T: 60000,
	Gen: func(t *rapid.T) DeriveCase {
		p := genValidParams(t)
		if rapid.IntRange(0, 9).Draw(t, "force") > 0 { // mostly inside the statement's domain
			if p.Comp == "" {
				p.Comp = rapid.SampledFrom([]string{"per-message", "context-takeover"}).Draw(t, "comp2")
			}
			if p.Level == nil {
				p.Level = ip(rapid.IntRange(0, 9).Draw(t, "level2"))
			}
			if p.Win == nil {
				p.Win = ip(rapid.IntRange(0, 32).Draw(t, "win2"))
			}
		}
		nb := rapid.IntRange(2, 4).Draw(t, "nbases")
		bs := make([]Base, nb)
		for i := range bs {
			bs[i] = Base{rapid.Bool().Draw(t, "be"), rapid.IntRange(-2, 9).Draw(t, "bl"), rapid.Bool().Draw(t, "bd"), rapid.IntRange(0, 32).Draw(t, "bw")}
		}
		return DeriveCase{P: p, Bases: bs}
	},
	Run: runDerive,
}

func TestDerive(t *testing.T) { subDerive.Check(t) }

// sub-check 4: what every dialer of the library produces (DialConfig -> NegotiationParams) names all three
type DialCase struct {
	C    Base   `json:"compress"`
	Enc  string `json:"enc"`
	Peer Base   `json:"peer_base"`
}

var subDial = ev.Sub[DialCase]{
	Name: "dialconfig", Q: 3000, T: 60000,
	Gen: func(t *rapid.T) DialCase {
		g := func(l string) Base {
			return Base{rapid.Bool().Draw(t, l+"e"), rapid.IntRange(0, 9).Draw(t, l+"l"), rapid.Bool().Draw(t, l+"d"), rapid.IntRange(0, 32).Draw(t, l+"w")}
		}
		return DialCase{C: g("c"), Enc: rapid.SampledFrom([]string{"json", "proto"}).Draw(t, "enc"), Peer: g("p")}
	},
	Run: func(c DialCase, k *ev.Case) *ev.Failure {
		dc := transport.DialConfig{CompressConfig: c.C.lib(), EncodingName: transport.EncodingName(c.Enc)}
		np := dc.NegotiationParams()
		k.NonTrivial(ev.JSON(c))
		k.Sample(func() any { return c })
		if np.Compress == "" || np.CompressLevel == nil || np.CompressWindowBits == nil {
			return ev.Failf("C17.3 dialer-names-all", "DialConfig %s produces parameters that do not name type, level and window: %s", ev.JSON(c), ev.JSON(fromLib(np)))
		}
		own := derive(np, dc.CompressConfig)
		for _, car := range carriers {
			out, err := car.roundTrip(np)
			if err != nil {
				return ev.Failf("C17.1 round-trip", "%s: %v", car.name, err)
			}
			if verr := out.Validate(); verr != nil {
				return ev.Failf("C17.1 validate", "dialer-produced set rejected: %s: %v", car.name, verr)
			}
			if d := derive(out, c.Peer.lib()); d != own {
				return ev.Failf("C17.3 peers-disagree", "dial config %s via %s: client %+v, peer (base %s) %+v", ev.JSON(c), car.name, own, ev.JSON(c.Peer), d)
			}
		}
		return nil
	},
}

func TestDialConfig(t *testing.T) { subDial.Check(t) }

func TestReplay(t *testing.T) { ev.ReplayTest(t, subRT, subKV, subBin, subDerive, subDial) }

// TestRegress: minimal cases of the defects repaired by "fix:" commits (known_findings.json, status fixed).
// They run first in every tier and are ordinary violations if they ever fail again.
func TestRegress(t *testing.T) {
	if ev.ShardIndex() != 0 {
		t.Skip("shard 0 only")
	}
	for _, car := range carriers {
		subKV.One(t, KVCase{Carrier: car.name, Pairs: []KV{{"clevel", "42"}}})
		subKV.One(t, KVCase{Carrier: car.name, Pairs: []KV{{"clevel", "-1"}}})
		subKV.One(t, KVCase{Carrier: car.name, Pairs: []KV{{"cwinbits", "33"}}})
		subKV.One(t, KVCase{Carrier: car.name, Pairs: []KV{{"tid", "\x80"}}})
		subKV.One(t, KVCase{Carrier: car.name, Pairs: []KV{{"tgid", "a\xffb"}, {"enc", "json"}}})
	}
}
