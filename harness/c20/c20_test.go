// Package c20: Flush is a barrier; flush policies cut chunks exactly where they promise; state
// snapshots conserve points; no chunk is ever cut empty.
package c20

import (
	"context"
	"fmt"
	"sort"
	"strings"
	"sync"
	"testing"
	"time"

	"github.com/aptpod/iscp-go/iscp"
	"github.com/aptpod/iscp-go/message"
	"pgregory.net/rapid"

	"verifharness/ev"
	"verifharness/sim"
	"verifharness/upk"
)

func TestMain(m *testing.M) { ev.MainExit(m, "C20") }

// Op kinds: write, flush, flushc (flush with an already cancelled context), state, wait.
type Case struct {
	Codec    string     `json:"codec"`
	Policy   upk.Policy `json:"policy"`
	Programs [][]upk.Op `json:"programs"` // 1 program: deterministic partition oracle; >1: concurrent oracle
}

func genOps(t *rapid.T, max int, pol upk.Policy) []upk.Op {
	n := rapid.IntRange(1, max).Draw(t, "nops")
	ops := make([]upk.Op, 0, n)
	thr := pol.Size
	for i := 0; i < n; i++ {
		switch k := rapid.IntRange(0, 11).Draw(t, "opkind"); {
		case k <= 6:
			op := upk.Op{Kind: "write", ID: rapid.IntRange(0, 5).Draw(t, "id")}
			np := rapid.IntRange(0, 3).Draw(t, "npoints")
			for j := 0; j < np; j++ {
				var sz int
				switch rapid.IntRange(0, 5).Draw(t, "sizeclass") {
				case 0:
					sz = 0
				case 1:
					sz = rapid.IntRange(0, 8).Draw(t, "tiny")
				case 2, 3: // straddle the threshold
					sz = thr + rapid.IntRange(-2, 2).Draw(t, "straddle")
					if sz < 0 {
						sz = 0
					}
				default:
					sz = rapid.IntRange(0, 80).Draw(t, "size")
				}
				op.Sizes = append(op.Sizes, sz)
			}
			if op.Sizes == nil {
				op.Sizes = []int{}
			}
			ops = append(ops, op)
		case k == 7 || k == 8:
			ops = append(ops, upk.Op{Kind: "flush"})
		case k == 9:
			ops = append(ops, upk.Op{Kind: "flushc"})
		case k == 10:
			ops = append(ops, upk.Op{Kind: "state"})
		default:
			ops = append(ops, upk.Op{Kind: "wait", Us: rapid.IntRange(100, 3000).Draw(t, "us")})
		}
	}
	return ops
}

func genPolicy(t *rapid.T, deterministic bool) upk.Policy {
	if deterministic {
		switch rapid.IntRange(0, 2).Draw(t, "policy") {
		case 0:
			return upk.Policy{Kind: "none"}
		case 1:
			return upk.Policy{Kind: "size", Size: rapid.SampledFrom([]int{0, 1, 7, 16, 40, 64}).Draw(t, "threshold")}
		default:
			return upk.Policy{Kind: "immediate"}
		}
	}
	return upk.GenPolicy(t)
}

type opResult struct {
	Op        int
	Kind      string
	Err       string
	Total     uint64
	Buffered  int
	LastSeq   uint32
	ChunksAt  int // chunks at the broker when the op finished (after settle for wait/state ops)
	Points    []sim.Point
	ReturnedT time.Time
}

type history struct {
	Results [][]opResult
	Ledger  []*sim.Entry
	Chunks  []*sim.Entry // by arrival
	Arrival map[string]time.Time
}

const perCall = 10 * time.Second

func chunkCount(b *sim.Broker) int {
	n := 0
	for _, e := range b.Ledger() {
		if e.In && e.Kind == "UpstreamChunk" {
			n++
		}
	}
	return n
}

func run(c Case) (*history, string, *ev.Failure) {
	w := sim.NewWorld()
	defer w.Dispose()
	enc := iscp.EncodingNameProtobuf
	if c.Codec == "json" {
		enc = iscp.EncodingNameJSON
	}
	conn, err := w.Connect(iscp.WithConnEncoding(enc))
	if err != nil {
		return nil, "", ev.Failf("harness", "connect: %v", err)
	}
	defer func() { sim.Call(perCall, func() { conn.Close(context.Background()) }) }()
	var up *iscp.Upstream
	ok, _ := sim.Call(perCall, func() {
		ctx, cancel := sim.Ctx(perCall)
		defer cancel()
		up, err = conn.OpenUpstream(ctx, "session-c20", iscp.WithUpstreamQoS(message.QoSReliable), c.Policy.Option(), iscp.WithUpstreamCloseTimeout(perCall))
	})
	if !ok {
		return nil, "OpenUpstream", nil
	}
	if err != nil {
		return nil, "", ev.Failf("harness", "open: %v", err)
	}
	h := &history{Results: make([][]opResult, len(c.Programs))}
	var wg sync.WaitGroup
	hung := make([]string, len(c.Programs))
	for g := range c.Programs {
		wg.Add(1)
		go func(g int) {
			defer wg.Done()
			ctr := 0
			for i, op := range c.Programs[g] {
				r := opResult{Op: i, Kind: op.Kind}
				var err error
				switch op.Kind {
				case "write":
					id := upk.DataID(op.ID)
					pts := make([]*message.DataPoint, len(op.Sizes))
					for j, sz := range op.Sizes {
						ctr++
						pts[j] = &message.DataPoint{ElapsedTime: upk.Elapsed(g, ctr), Payload: upk.Payload(g, ctr, sz)}
						r.Points = append(r.Points, sim.Point{Name: id.Name, Type: id.Type, Elapsed: pts[j].ElapsedTime, Payload: pts[j].Payload})
					}
					ok, _ := sim.Call(perCall, func() {
						ctx, cancel := sim.Ctx(perCall)
						defer cancel()
						err = up.WriteDataPoints(ctx, id, pts...)
					})
					if !ok {
						hung[g] = "WriteDataPoints"
						return
					}
				case "flush", "flushc":
					ok, _ := sim.Call(perCall, func() {
						ctx, cancel := sim.Ctx(perCall)
						if op.Kind == "flushc" {
							cancel()
						}
						defer cancel()
						err = up.Flush(ctx)
					})
					if !ok {
						hung[g] = "Flush"
						return
					}
					st := up.State()
					r.Total, r.LastSeq = st.TotalDataPoints, st.LastIssuedSequenceNumber
					for _, gr := range st.DataPointsBuffer {
						r.Buffered += len(gr.DataPoints)
					}
				case "state":
					st := up.State()
					r.Total, r.LastSeq = st.TotalDataPoints, st.LastIssuedSequenceNumber
					for _, gr := range st.DataPointsBuffer {
						r.Buffered += len(gr.DataPoints)
					}
					r.ChunksAt = chunkCount(w.Broker)
				case "wait":
					time.Sleep(time.Duration(op.Us) * time.Microsecond)
					r.ChunksAt = chunkCount(w.Broker)
				}
				if err != nil {
					r.Err = err.Error()
				}
				r.ReturnedT = time.Now()
				h.Results[g] = append(h.Results[g], r)
			}
		}(g)
	}
	wg.Wait()
	for _, s := range hung {
		if s != "" {
			return nil, s, nil
		}
	}
	var cerr error
	ok, _ = sim.Call(perCall+time.Second, func() {
		ctx, cancel := sim.Ctx(perCall)
		defer cancel()
		cerr = up.Close(ctx)
	})
	if !ok {
		return nil, "Upstream.Close", nil
	}
	if cerr != nil {
		return nil, "", ev.Failf("harness", "close: %v", cerr)
	}
	h.Ledger = w.Broker.Ledger()
	for _, e := range h.Ledger {
		if e.In && e.Kind == "UpstreamChunk" {
			h.Chunks = append(h.Chunks, e)
		}
	}
	return h, "", nil
}

func keysOf(ps []sim.Point) string {
	k := upk.SortedKeys(ps)
	return strings.Join(k, ";")
}

// predict computes the chunk partition of a single-goroutine program under a deterministic policy.
// choice decides, per cancelled flush, whether it cut (bit i of mask for the i-th flushc).
// It returns the list of chunks (each a multiset key) and, per op, the number of chunks cut so far.
func predict(c Case, mask int) (chunks []string, cutsAfter []int) {
	var buf []sim.Point
	bufHasEntry := false // a zero-point write still creates a (pointless) group; with the repaired library it is a no-op
	sum := 0
	nc := 0
	cut := func() {
		if !bufHasEntry {
			return
		}
		chunks = append(chunks, keysOf(buf))
		buf, sum, bufHasEntry = nil, 0, false
	}
	ctr := 0
	for _, op := range c.Programs[0] {
		switch op.Kind {
		case "write":
			if len(op.Sizes) == 0 {
				break // a write without points adds nothing (never an empty chunk)
			}
			id := upk.DataID(op.ID)
			for _, sz := range op.Sizes {
				ctr++
				buf = append(buf, sim.Point{Name: id.Name, Type: id.Type, Elapsed: upk.Elapsed(0, ctr), Payload: upk.Payload(0, ctr, sz)})
				sum += sz
			}
			bufHasEntry = true
			switch c.Policy.Kind {
			case "immediate":
				cut()
			case "size":
				if sum > c.Policy.Size {
					cut()
				}
			}
		case "flush":
			cut()
		case "flushc":
			if mask&(1<<nc) != 0 {
				cut()
			}
			nc++
		}
		cutsAfter = append(cutsAfter, len(chunks))
	}
	cut() // Close flushes the rest
	return chunks, cutsAfter
}

func summarize(h *history) any {
	var led []string
	for _, e := range h.Chunks {
		ch := e.Msg.(*message.UpstreamChunk)
		sizes := []int{}
		for _, p := range e.Points {
			sizes = append(sizes, len(p.Payload))
		}
		led = append(led, fmt.Sprintf("t=%dus seq=%d groups=%d payload-sizes=%v", e.T, ch.StreamChunk.SequenceNumber, len(ch.StreamChunk.DataPointGroups), sizes))
	}
	var ops []string
	for g, rs := range h.Results {
		for _, r := range rs {
			ops = append(ops, fmt.Sprintf("g%d op%d %s err=%q total=%d buffered=%d lastseq=%d chunksAt=%d", g, r.Op, r.Kind, r.Err, r.Total, r.Buffered, r.LastSeq, r.ChunksAt))
		}
	}
	return map[string]any{"chunks": led, "ops": ops}
}

func oracle(c Case, h *history, k *ev.Case) *ev.Failure {
	fail := func(clause, format string, a ...any) *ev.Failure {
		return ev.Failf(clause, format, a...).WithHistory(summarize(h))
	}
	// chunks by sequence number
	bySeq := map[uint32]*sim.Entry{}
	for _, e := range h.Chunks {
		ch := e.Msg.(*message.UpstreamChunk)
		if e.ResolveErr != "" {
			return fail("harness", "%s", e.ResolveErr)
		}
		bySeq[ch.StreamChunk.SequenceNumber] = e
		// no chunk is ever cut empty
		if len(e.Points) == 0 {
			return fail("C20.5 empty-chunk", "chunk seq %d was cut with %d group(s) and no data point", ch.StreamChunk.SequenceNumber, len(ch.StreamChunk.DataPointGroups))
		}
	}
	n := uint32(len(h.Chunks))
	for s := uint32(1); s <= n; s++ {
		if bySeq[s] == nil {
			return fail("harness", "sequence gap at %d (C01's business)", s)
		}
	}
	seqOfPoint := map[time.Duration]uint32{}
	for s, e := range bySeq {
		for _, p := range e.Points {
			seqOfPoint[p.Elapsed] = s
		}
	}
	single := len(c.Programs) == 1
	det := c.Policy.Kind == "none" || c.Policy.Kind == "size" || c.Policy.Kind == "immediate"

	// per goroutine: barrier + conservation
	totalInvoked := 0
	for _, p := range c.Programs {
		for _, op := range p {
			totalInvoked += len(op.Sizes)
		}
	}
	for g, rs := range h.Results {
		accepted := 0
		var acceptedPts []sim.Point
		invokedSoFar := 0
		for _, r := range rs {
			switch r.Kind {
			case "write":
				invokedSoFar += len(r.Points)
				if r.Err != "" {
					return fail("harness", "write returned %s on a healthy link", r.Err)
				}
				accepted += len(r.Points)
				acceptedPts = append(acceptedPts, r.Points...)
			case "flush", "flushc":
				if r.Kind == "flush" && r.Err != "" {
					return fail("harness", "flush returned %s on a healthy link", r.Err)
				}
				if r.Err == "" {
					// barrier: everything this goroutine had accepted is in a chunk with seq <= LastIssued read right after
					for _, p := range acceptedPts {
						s, ok := seqOfPoint[p.Elapsed]
						if !ok {
							return fail("C20.1 barrier", "goroutine %d: Flush (op %d) returned nil but a point accepted before it never reached the broker", g, r.Op)
						}
						if s > r.LastSeq {
							return fail("C20.1 barrier", "goroutine %d: Flush (op %d) returned nil with last issued seq %d, but a point accepted before it was cut into seq %d", g, r.Op, r.LastSeq, s)
						}
					}
					if single {
						if r.Buffered != 0 {
							return fail("C20.1 barrier-buffer", "Flush (op %d) returned nil but State() still shows %d buffered points", r.Op, r.Buffered)
						}
						if int(r.Total) != accepted {
							return fail("C20.4 conservation-after-flush", "after Flush (op %d): TotalDataPoints=%d, accepted=%d", r.Op, r.Total, accepted)
						}
					}
				}
				fallthrough
			case "state":
				if single {
					if int(r.Total)+r.Buffered > invokedSoFar {
						return fail("C20.4 conservation", "op %d: sent %d + buffered %d exceeds the %d points written so far", r.Op, r.Total, r.Buffered, invokedSoFar)
					}
				} else if int(r.Total)+r.Buffered > totalInvoked {
					return fail("C20.4 conservation", "goroutine %d op %d: sent %d + buffered %d exceeds all %d points of the case", g, r.Op, r.Total, r.Buffered, totalInvoked)
				}
			}
		}
	}

	if single && det {
		nflushc := 0
		for _, op := range c.Programs[0] {
			if op.Kind == "flushc" {
				nflushc++
			}
		}
		var observed []string
		for s := uint32(1); s <= n; s++ {
			observed = append(observed, keysOf(bySeq[s].Points))
		}
		matched := false
		var firstPred []string
		var early *ev.Failure
		for mask := 0; mask < 1<<nflushc; mask++ {
			pred, cutsAfter := predict(c, mask)
			if mask == 0 {
				firstPred = pred
			}
			if len(pred) != len(observed) {
				continue
			}
			same := true
			for i := range pred {
				if pred[i] != observed[i] {
					same = false
					break
				}
			}
			if !same {
				continue
			}
			matched = true
			// nothing is transmitted earlier than the model cuts it ("none": nothing until Flush/Close)
			var e *ev.Failure
			for i, r := range h.Results[0] {
				if (r.Kind == "wait" || r.Kind == "state") && r.ChunksAt > cutsAfter[i] {
					e = fail("C20.2 early-transmission", "policy %s: %d chunks at the broker after op %d, the policy allows %d", c.Policy.Kind, r.ChunksAt, r.Op, cutsAfter[i])
					break
				}
			}
			if e == nil {
				early = nil
				break // this reading of the cancelled flushes explains everything
			}
			early = e
		}
		if !matched {
			return fail("C20.2 partition", "policy %s: observed partition %v matches no predicted partition (first prediction %v)", ev.JSON(c.Policy), sizesOf(observed), sizesOf(firstPred))
		}
		if early != nil {
			return early
		}
	}
	return nil
}

func sizesOf(chunks []string) []int {
	res := make([]int, len(chunks))
	for i, c := range chunks {
		if c == "" {
			res[i] = 0
		} else {
			res[i] = strings.Count(c, ";") + 1
		}
	}
	return res
}

func classify(c Case, h *history, k *ev.Case) {
	k.Label("policy=" + c.Policy.Kind)
	k.Label(fmt.Sprintf("goroutines=%d", len(c.Programs)))
	nt := false
	if len(c.Programs) > 1 {
		for _, p := range c.Programs {
			for _, op := range p {
				if op.Kind == "flush" {
					nt = true
				}
			}
		}
	} else {
		sum, buffered := 0, false
		for i, op := range c.Programs[0] {
			switch op.Kind {
			case "write":
				was := buffered
				for _, s := range op.Sizes {
					sum += s
				}
				if len(op.Sizes) > 0 {
					buffered = true
				}
				if c.Policy.Kind == "size" && sum > c.Policy.Size {
					if was {
						nt = true
						k.Label("threshold-crossed-with-earlier-data")
					}
					sum, buffered = 0, false
				}
				if len(op.Sizes) == 0 {
					k.Label("zero-point-write")
				}
			case "flush":
				sum, buffered = 0, false
			case "flushc":
				k.Label("cancelled-flush")
			case "state":
				if i > 0 && c.Programs[0][i-1].Kind == "write" {
					nt = true
					k.Label("state-between-write-and-cut")
				}
			}
		}
	}
	if nt {
		k.NonTrivial(ev.JSON(c))
	}
}

func runCase(c Case, k *ev.Case) *ev.Failure {
	h, abort, f := run(c)
	if f != nil {
		return f
	}
	if abort != "" {
		ev.Aborted(abort)
		return nil
	}
	classify(c, h, k)
	k.Sample(func() any { return map[string]any{"case": c, "history": summarize(h)} })
	return oracle(c, h, k)
}

var subSingle = ev.Sub[Case]{Name: "single", Repeats: 20, Q: 300, T: 8000,
	Gen: func(t *rapid.T) Case {
		p := genPolicy(t, true)
		return Case{Codec: rapid.SampledFrom([]string{"proto", "json"}).Draw(t, "codec"), Policy: p, Programs: [][]upk.Op{genOps(t, 30, p)}}
	}, Run: runCase}

var subConc = ev.Sub[Case]{Name: "concurrent", Repeats: 50, Q: 150, T: 4000,
	Gen: func(t *rapid.T) Case {
		p := genPolicy(t, false)
		c := Case{Codec: "proto", Policy: p}
		n := rapid.IntRange(2, 4).Draw(t, "goroutines")
		for i := 0; i < n; i++ {
			c.Programs = append(c.Programs, genOps(t, 20, p))
		}
		return c
	}, Run: runCase}

// interval policies: accepted data reaches the broker within one interval (+ slack)
type IntervalCase struct {
	IntervalMs int   `json:"interval_ms"`
	OrSize     bool  `json:"or_size"`
	GapsUs     []int `json:"gaps_us"` // sleep before each write
	// OutageBefore > 0: before write number OutageBefore (1-based) the link is cut and the stream resumes on a new connection; the
	// interval promise then holds for what is written afterwards (seeded change C20/m4: the policy's ticker did not survive the resume)
	OutageBefore int `json:"outage_before,omitempty"`
}

const intervalSlack = 2 * time.Second

func runInterval(c IntervalCase, k *ev.Case) *ev.Failure {
	w := sim.NewWorld()
	defer w.Dispose()
	conn, err := w.Connect(iscp.WithConnPingInterval(15*time.Millisecond), iscp.WithConnPingTimeout(1500*time.Millisecond)) // so that a cut link is noticed
	if err != nil {
		return ev.Failf("harness", "connect: %v", err)
	}
	defer func() { sim.Call(perCall, func() { conn.Close(context.Background()) }) }()
	pol := upk.Policy{Kind: "interval", IntervalMs: c.IntervalMs}
	if c.OrSize {
		pol = upk.Policy{Kind: "interval_or_size", IntervalMs: c.IntervalMs, Size: 1 << 20}
	}
	ctx, cancel := sim.Ctx(perCall)
	defer cancel()
	up, err := conn.OpenUpstream(ctx, "s", pol.Option(), iscp.WithUpstreamQoS(message.QoSReliable))
	if err != nil {
		return ev.Failf("harness", "open: %v", err)
	}
	type wr struct {
		el  time.Duration
		at  time.Time
		pre bool // written before the outage: retransmitted after the resume, no latency promise across an outage
	}
	var writes []wr
	resumed := false
	for i, gap := range c.GapsUs {
		if c.OutageBefore == i+1 {
			for j := range writes {
				writes[j].pre = true
			}
			w.CurrentLink().DrainThenSever(20 * time.Millisecond)
			for dl := time.Now().Add(5 * time.Second); time.Now().Before(dl); time.Sleep(time.Millisecond) {
				if st, inc := w.Broker.Upstream(up.ID), w.Broker.CurrentInc(); st != nil && inc.Index > 0 && st.Inc == inc.Index && !inc.Link.Dead() {
					resumed = true
					break
				}
			}
			if !resumed {
				ev.TimingInconclusive()
				return nil // recovery is C05's business
			}
			time.Sleep(2 * time.Millisecond)
			k.Label("interval-after-resume")
		}
		time.Sleep(time.Duration(gap) * time.Microsecond)
		el := upk.Elapsed(0, i+1)
		if err := up.WriteDataPoints(ctx, upk.DataID(i%3), &message.DataPoint{ElapsedTime: el, Payload: upk.Payload(0, i+1, 12)}); err != nil {
			return ev.Failf("harness", "write: %v", err)
		}
		writes = append(writes, wr{el: el, at: time.Now()})
	}
	interval := time.Duration(c.IntervalMs) * time.Millisecond
	// wait (without Flush/Close) until everything arrived or the bound is clearly exceeded
	deadline := time.Now().Add(interval + intervalSlack + time.Second)
	arrived := map[time.Duration]int64{}
	for time.Now().Before(deadline) {
		for _, e := range w.Broker.Ledger() {
			if e.In && e.Kind == "UpstreamChunk" {
				for _, p := range e.Points {
					if _, ok := arrived[p.Elapsed]; !ok {
						arrived[p.Elapsed] = e.T
					}
				}
			}
		}
		if len(arrived) == len(writes) {
			break
		}
		time.Sleep(interval / 4)
	}
	k.Label(fmt.Sprintf("interval=%dms", c.IntervalMs))
	k.NonTrivial(ev.JSON(c))
	k.Sample(func() any { return c })
	t0 := w.Broker.T0
	worst := time.Duration(0)
	for _, wrt := range writes {
		at, ok := arrived[wrt.el]
		if !ok {
			ev.TimingInconclusive()
			return ev.Failf("C20.3 interval", "a point written %v ago was still not transmitted (interval %v, no Flush/Close)", time.Since(wrt.at).Round(time.Millisecond), interval)
		}
		lat := t0.Add(time.Duration(at) * time.Microsecond).Sub(wrt.at)
		if wrt.pre {
			continue
		}
		if lat > worst {
			worst = lat
		}
	}
	if worst > interval+intervalSlack {
		return ev.Failf("C20.3 interval", "accepted data was held %v, interval is %v (+%v slack)", worst, interval, intervalSlack)
	}
	sim.Call(perCall, func() { up.Close(ctx) })
	return nil
}

var subInterval = ev.Sub[IntervalCase]{Name: "interval", Repeats: 3, Q: 12, T: 200,
	Gen: func(t *rapid.T) IntervalCase {
		c := IntervalCase{IntervalMs: rapid.SampledFrom([]int{2, 5, 10, 25, 50}).Draw(t, "interval"), OrSize: rapid.Bool().Draw(t, "orsize")}
		n := rapid.IntRange(1, 8).Draw(t, "nwrites")
		for i := 0; i < n; i++ {
			c.GapsUs = append(c.GapsUs, rapid.IntRange(0, 4000).Draw(t, "gap"))
		}
		if rapid.IntRange(0, 2).Draw(t, "outage") == 0 {
			c.OutageBefore = rapid.IntRange(1, n).Draw(t, "outagebefore")
		}
		return c
	}, Run: runInterval}

func TestSingle(t *testing.T)     { subSingle.Check(t) }
func TestConcurrent(t *testing.T) { subConc.Check(t) }
func TestInterval(t *testing.T)   { subInterval.Check(t) }

func TestReplay(t *testing.T) { ev.ReplayTest(t, subSingle, subConc, subInterval) }

var _ = sort.Strings

// TestRegress: repaired defects (known_findings.json, status fixed).
func TestRegress(t *testing.T) {
	if ev.ShardIndex() != 0 {
		t.Skip("shard 0 only")
	}
	// C20-empty-chunk: a write without points followed by Flush / an immediate policy
	for _, pol := range []upk.Policy{{Kind: "none"}, {Kind: "immediate"}, {Kind: "size", Size: 0}} {
		subSingle.One(t, Case{Codec: "proto", Policy: pol, Programs: [][]upk.Op{{{Kind: "write", ID: 1, Sizes: []int{}}, {Kind: "flush"},
			{Kind: "write", ID: 2, Sizes: []int{4}}, {Kind: "write", ID: 1, Sizes: []int{}}, {Kind: "flush"}, {Kind: "write", ID: 3, Sizes: []int{}}}}})
	}
}
