// Package ev is the bookkeeping layer shared by all property checks: per-process evidence shard
// (counts, distinct non-trivial case hashes, labels, samples), violation / replay-file writer,
// known-finding canaries, and the generic "generate -> run -> verdict" plumbing around rapid.
package ev

import (
	"crypto/sha1"
	"encoding/hex"
	"encoding/json"
	"flag"
	"fmt"
	"os"
	"path/filepath"
	"sort"
	"strconv"
	"sync"
	"testing"
	"time"

	"pgregory.net/rapid"
)

// Failure is the verdict of one executed case that contradicts the property.
type Failure struct {
	Clause  string `json:"clause"`
	Message string `json:"message"`
	// History is optional free-form material for the reader (ledger, client log).
	History any `json:"history,omitempty"`
}

func Failf(clause, format string, a ...any) *Failure {
	return &Failure{Clause: clause, Message: fmt.Sprintf(format, a...)}
}

func (f *Failure) WithHistory(h any) *Failure { f.History = h; return f }

// Violation is a failure promoted to a reportable finding, with its replay file.
type Violation struct {
	Sub     string `json:"sub"`
	Clause  string `json:"clause"`
	Message string `json:"message"`
	Replay  string `json:"replay"`
}

// Replay is the on-disk format of a replay file.
type Replay struct {
	Property string          `json:"property"`
	Sub      string          `json:"sub"`
	Tier     string          `json:"tier"`
	Seed     int64           `json:"seed"`
	Shard    int             `json:"shard"`
	Clause   string          `json:"clause"`
	Message  string          `json:"message"`
	Case     json.RawMessage `json:"case"`
	History  any             `json:"history,omitempty"`
	Note     string          `json:"note,omitempty"`
}

type shard struct {
	mu sync.Mutex

	Property           string              `json:"property"`
	Shard              int                 `json:"shard"`
	Evaluations        int64               `json:"evaluations"`
	NT                 map[string]struct{} `json:"-"`
	NTList             []string            `json:"nt"`
	Labels             map[string]int64    `json:"labels"`
	Samples            []any               `json:"samples"`
	Violations         []Violation         `json:"violations"`
	KnownReproduced    map[string]string   `json:"known_reproduced"`
	KnownNotReproduced []string            `json:"known_not_reproduced"`
	ExcludedKnown      int64               `json:"excluded_known"`
	Aborted            int64               `json:"aborted"`
	AbortSites         map[string]int64    `json:"abort_sites"`
	TimingInconclusive int64               `json:"timing_inconclusive"`
	HarnessProblems    int64               `json:"harness_problems"`
	Exhaustive         map[string]bool     `json:"exhaustive"`
	SubEvals           map[string]int64    `json:"sub_evals"`
	Notes              []string            `json:"notes"`
	Extra              map[string]any      `json:"extra"`

	sampleBySub map[string]int
	last        map[string]*pending // sub -> last failure seen
}

type pending struct {
	f    *Failure
	cas  any
	when time.Time
}

// S is the process-wide shard.
var S = &shard{
	NT: map[string]struct{}{}, Labels: map[string]int64{}, KnownReproduced: map[string]string{},
	AbortSites: map[string]int64{}, Exhaustive: map[string]bool{}, SubEvals: map[string]int64{},
	Extra: map[string]any{}, sampleBySub: map[string]int{}, last: map[string]*pending{},
}

// Tier returns "quick" or "thorough".
func Tier() string {
	if os.Getenv("VERIF_TIER") == "thorough" {
		return "thorough"
	}
	return "quick"
}

func Thorough() bool { return Tier() == "thorough" }

// Seed is the VERIF_SEED value.
func Seed() int64 {
	v, _ := strconv.ParseInt(os.Getenv("VERIF_SEED"), 10, 64)
	return v
}

// ShardIndex / NShards identify this process among the parallel shards of one check run.
func ShardIndex() int { v, _ := strconv.Atoi(os.Getenv("VERIF_SHARD")); return v }
func NShards() int {
	v, _ := strconv.Atoi(os.Getenv("VERIF_NSHARDS"))
	if v <= 0 {
		return 1
	}
	return v
}

// Scale returns q in the quick tier and th in the thorough tier.
func Scale(q, th int) int {
	if Thorough() {
		return th
	}
	return q
}

func replayDir() string {
	if d := os.Getenv("VERIF_REPLAY_DIR"); d != "" {
		return d
	}
	return "/verif/replays"
}

// Main runs the tests of a property package and writes the shard file.
func Main(m *testing.M, property string) int {
	S.Property = property
	S.Shard = ShardIndex()
	code := m.Run()
	S.flush()
	return code
}

func (s *shard) flush() {
	out := os.Getenv("VERIF_SHARD_OUT")
	if out == "" {
		return
	}
	s.mu.Lock()
	defer s.mu.Unlock()
	s.NTList = s.NTList[:0]
	for k := range s.NT {
		s.NTList = append(s.NTList, k)
	}
	sort.Strings(s.NTList)
	b, err := json.Marshal(s)
	if err != nil {
		b, _ = json.Marshal(map[string]any{"property": s.Property, "marshal_error": err.Error()})
	}
	tmp := out + ".tmp"
	if os.WriteFile(tmp, b, 0o644) == nil {
		os.Rename(tmp, out)
	}
}

// MainExit is Main followed by os.Exit.
func MainExit(m *testing.M, property string) { os.Exit(Main(m, property)) }

// Flush writes the shard file now (used before risky operations that may kill the process).
func Flush() { S.flush() }

// Case is the bookkeeping handle of one executed case.
type Case struct {
	sub string
}

// Begin counts one evaluation of sub-check sub.
func Begin(sub string) *Case {
	S.mu.Lock()
	S.Evaluations++
	S.SubEvals[sub]++
	S.mu.Unlock()
	return &Case{sub: sub}
}

// Label counts a classification label.
func (c *Case) Label(l string) {
	S.mu.Lock()
	S.Labels[c.sub+"/"+l]++
	S.mu.Unlock()
}

func (c *Case) LabelN(l string, n int) {
	if n == 0 {
		return
	}
	S.mu.Lock()
	S.Labels[c.sub+"/"+l] += int64(n)
	S.mu.Unlock()
}

// AddPlanned records how many planned fault positions a case had and how many actually fired.
func (c *Case) AddPlanned(planned, fired int) {
	S.mu.Lock()
	p, _ := S.Extra["planned_cuts"].(int64)
	f, _ := S.Extra["fired_cuts"].(int64)
	S.Extra["planned_cuts"] = p + int64(planned)
	S.Extra["fired_cuts"] = f + int64(fired)
	S.mu.Unlock()
}

// NonTrivial marks the case non-trivial; key must identify the case (distinctness is by key).
func (c *Case) NonTrivial(key string) {
	h := sha1.Sum([]byte(c.sub + "\x00" + key))
	k := hex.EncodeToString(h[:8])
	S.mu.Lock()
	S.NT[k] = struct{}{}
	S.mu.Unlock()
}

// Sample stores up to 3 samples per sub-check (lazily built).
func (c *Case) Sample(build func() any) {
	S.mu.Lock()
	n := S.sampleBySub[c.sub]
	if n >= 3 {
		S.mu.Unlock()
		return
	}
	S.sampleBySub[c.sub] = n + 1
	S.mu.Unlock()
	v := build()
	S.mu.Lock()
	S.Samples = append(S.Samples, map[string]any{"sub": c.sub, "case": v})
	S.mu.Unlock()
}

// Journal records the case that is about to run in $VERIF_JOURNAL so that the driver can turn a
// process death (panic in a library goroutine) into a replay file.
func Journal(sub string, cas any) {
	path := os.Getenv("VERIF_JOURNAL")
	if path == "" {
		return
	}
	b, err := json.Marshal(map[string]any{"sub": sub, "case": cas})
	if err == nil {
		os.WriteFile(path, b, 0o644)
	}
}

// Excluded counts a generated case (or part) that was steered away from a known finding.
func Excluded(n int) {
	S.mu.Lock()
	S.ExcludedKnown += int64(n)
	S.mu.Unlock()
}

// Aborted counts a case that was abandoned because an API call did not return (another property's business).
func Aborted(site string) {
	S.mu.Lock()
	S.Aborted++
	S.AbortSites[site]++
	S.mu.Unlock()
}

func TimingInconclusive() {
	S.mu.Lock()
	S.TimingInconclusive++
	S.mu.Unlock()
}

func Note(format string, a ...any) {
	S.mu.Lock()
	if len(S.Notes) < 50 {
		S.Notes = append(S.Notes, fmt.Sprintf(format, a...))
	}
	S.mu.Unlock()
}

func SetExtra(k string, v any) {
	S.mu.Lock()
	S.Extra[k] = v
	S.mu.Unlock()
}

func AddExtra(k string, n int64) {
	S.mu.Lock()
	cur, _ := S.Extra[k].(int64)
	S.Extra[k] = cur + n
	S.mu.Unlock()
}

func SetExhaustive(sub string, v bool) {
	S.mu.Lock()
	S.Exhaustive[sub] = v
	S.mu.Unlock()
}

// remember keeps the most recent failure of a sub-check (rapid re-runs the property while shrinking;
// the last failing execution is the minimal one).
func remember(sub string, cas any, f *Failure) {
	S.mu.Lock()
	S.last[sub] = &pending{f: f, cas: cas, when: time.Now()}
	S.mu.Unlock()
}

// Report promotes a failure to a violation immediately (for checks not driven by rapid, or
// schedule-dependent ones where the first observation is the evidence).
func Report(sub string, cas any, f *Failure) string {
	path := writeReplay(sub, cas, f)
	S.mu.Lock()
	S.Violations = append(S.Violations, Violation{Sub: sub, Clause: f.Clause, Message: f.Message, Replay: path})
	S.mu.Unlock()
	S.flush()
	return path
}

func promote(sub string) {
	S.mu.Lock()
	p := S.last[sub]
	delete(S.last, sub)
	S.mu.Unlock()
	if p == nil {
		Report(sub, nil, Failf("harness", "test failed without a recorded failure (panic or rapid health check); see log"))
		return
	}
	Report(sub, p.cas, p.f)
}

func writeReplay(sub string, cas any, f *Failure) string {
	raw, err := json.Marshal(cas)
	if err != nil {
		raw, _ = json.Marshal(fmt.Sprintf("unserialisable case: %v", err))
	}
	r := Replay{Property: S.Property, Sub: sub, Tier: Tier(), Seed: Seed(), Shard: ShardIndex(),
		Clause: f.Clause, Message: f.Message, Case: raw, History: f.History}
	b, err := json.MarshalIndent(r, "", " ")
	if err != nil {
		r.History = fmt.Sprintf("%v", f.History)
		b, _ = json.MarshalIndent(r, "", " ")
	}
	h := sha1.Sum(append([]byte(sub+f.Clause), raw...))
	dir := replayDir()
	os.MkdirAll(dir, 0o755)
	path := filepath.Join(dir, fmt.Sprintf("%s-%s-%s.json", S.Property, sub, hex.EncodeToString(h[:6])))
	os.WriteFile(path, b, 0o644)
	return path
}

// Sub is one sub-check of a property: a generator of concrete cases and a runner with an oracle.
// C must be JSON-serialisable: the replay file stores it and Replay re-executes it without rapid.
type Sub[C any] struct {
	Name string
	Gen  func(t *rapid.T) C
	// Run executes the case against the real code and returns nil if the property held.
	Run func(c C, k *Case) *Failure
	// Repeats > 1: schedule-dependent check; a replay re-executes the case up to Repeats times.
	Repeats int
	// Q / T: number of generated cases per shard process in the quick / thorough tier
	// (0 = the -rapid.checks flag).
	Q, T int
}

// Check drives the sub-check with rapid (count from -rapid.checks, scaled by mult/div).
func (s Sub[C]) Check(t *testing.T) {
	t.Helper()
	defer func() {
		if t.Failed() {
			S.mu.Lock()
			_, recorded := S.last[s.Name]
			S.mu.Unlock()
			// in -race builds the testing package fails a test when the detector reported something; that is not a
			// failure of this sub-check's oracle (the driver collects the race reports themselves)
			if recorded || os.Getenv("GORACE") == "" {
				promote(s.Name)
			}
		}
	}()
	if n := Scale(s.Q, s.T); n > 0 {
		if o, err := strconv.Atoi(os.Getenv("VERIF_CHECKS")); err == nil && o > 0 {
			n = o // development override
		}
		flag.Set("rapid.checks", strconv.Itoa(n))
	}
	rapid.Check(t, func(rt *rapid.T) {
		c := s.Gen(rt)
		k := Begin(s.Name)
		if f := s.Run(c, k); f != nil {
			if harnessProblem(s.Name, f) {
				return
			}
			remember(s.Name, c, f)
			rt.Fatalf("%s: %s", f.Clause, f.Message)
		}
	})
}

// harnessProblem: the case could not be set up or driven (clause "harness": a loop-back pair that did not come up on a starved
// machine, a connect that failed before the scenario began). That says nothing about the property: the case is counted and noted,
// never reported as a violation; the driver turns many of them into exit 2 (inconclusive).
func harnessProblem(sub string, f *Failure) bool {
	if f == nil || f.Clause != "harness" {
		return false
	}
	S.mu.Lock()
	S.HarnessProblems++
	if len(S.Notes) < 8 {
		S.Notes = append(S.Notes, "harness problem in "+sub+": "+f.Message)
	}
	S.mu.Unlock()
	return true
}

// One executes a single concrete case (regression cases, exhaustive grids); a failure is reported at once.
func (s Sub[C]) One(t *testing.T, c C) bool {
	t.Helper()
	k := Begin(s.Name)
	if f := s.Run(c, k); f != nil {
		if harnessProblem(s.Name, f) {
			return true
		}
		path := Report(s.Name, c, f)
		t.Errorf("%s: %s: %s (replay %s)", s.Name, f.Clause, f.Message, path)
		return false
	}
	return true
}

// TryReplay re-executes the case stored in r if it belongs to this sub-check.
// It returns (handled, failure).
func (s Sub[C]) TryReplay(r *Replay) (bool, *Failure) {
	if r.Sub != s.Name {
		return false, nil
	}
	var c C
	if err := json.Unmarshal(r.Case, &c); err != nil {
		return true, Failf("harness", "cannot decode case: %v", err)
	}
	n := s.Repeats
	if n < 1 {
		n = 1
	}
	for i := 0; i < n; i++ {
		k := Begin(s.Name)
		if f := s.Run(c, k); f != nil {
			return true, f
		}
	}
	return true, nil
}

// Replayer is implemented by every Sub.
type Replayer interface {
	TryReplay(r *Replay) (bool, *Failure)
}

// ReplayTest implements `./check <ID> --replay file`: it loads $VERIF_REPLAY and re-executes it.
func ReplayTest(t *testing.T, subs ...Replayer) {
	path := os.Getenv("VERIF_REPLAY")
	if path == "" {
		t.Skip("VERIF_REPLAY not set")
	}
	b, err := os.ReadFile(path)
	if err != nil {
		t.Fatalf("read replay: %v", err)
	}
	var r Replay
	if err := json.Unmarshal(b, &r); err != nil {
		t.Fatalf("decode replay: %v", err)
	}
	for _, s := range subs {
		ok, f := s.TryReplay(&r)
		if !ok {
			continue
		}
		if f != nil {
			fmt.Printf("REPLAY-FAILS property=%s sub=%s clause=%s: %s\n", r.Property, r.Sub, f.Clause, f.Message)
			if f.History != nil && os.Getenv("VERIF_REPLAY_HISTORY") != "" {
				hb, _ := json.MarshalIndent(f.History, "", " ")
				fmt.Printf("HISTORY %s\n", hb)
			}
			t.Fatalf("replay fails: %s: %s", f.Clause, f.Message)
		}
		fmt.Printf("REPLAY-PASSES property=%s sub=%s\n", r.Property, r.Sub)
		return
	}
	t.Fatalf("no sub-check named %q in this package", r.Sub)
}

// Known runs the canary of a known finding: run returns a failure if the defect is still present.
func Known(t *testing.T, id string, run func() *Failure) {
	f := run()
	S.mu.Lock()
	if f != nil {
		S.KnownReproduced[id] = f.Clause + ": " + f.Message
	} else {
		S.KnownNotReproduced = append(S.KnownNotReproduced, id)
	}
	S.mu.Unlock()
}

// Checks returns the per-sub-check number of rapid cases for the tier (rapid's own -rapid.checks
// flag stays the global default; this helper lets a package run cheap subs more often).
func JSON(v any) string {
	b, _ := json.Marshal(v)
	return string(b)
}
