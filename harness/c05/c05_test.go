// Package c05: a lost transport is survived - reconnect with a fresh token, every stream resumed
// under its original id, requests around the failure re-sent, notifications once per outage, a
// refused resume closes that stream only, no stream left silently detached.
package c05

import (
	"context"
	"errors"
	"fmt"
	"runtime"
	"strings"
	"sync"
	"testing"
	"time"

	ierrors "github.com/aptpod/iscp-go/errors"
	"github.com/aptpod/iscp-go/message"
	"github.com/google/uuid"
	"pgregory.net/rapid"

	"verifharness/ev"
	"verifharness/scn"
	"verifharness/sim"
)

func TestMain(m *testing.M) { ev.MainExit(m, "C05") }

type Outage struct {
	HandshakeCuts int      `json:"handshake_cuts"` // redials whose connect handshake is cut
	DialFails     int      `json:"dial_fails"`     // failing dial attempts before the first redial that gets through
	ResumeCut     string   `json:"resume_cut"`     // "" | before-response | after-response : cut during the resume exchange of stream ResumeCutStream
	ResumeStream  int      `json:"resume_stream"`  // index into all streams (ups then downs)
	Refuse        int      `json:"refuse"`         // index of the stream whose resume is refused, -1 none
	Conflicts     int      `json:"conflicts"`      // RESUME_REQUEST_CONFLICT answers before success for stream ConflictStream
	ConflictStrm  int      `json:"conflict_stream"`
	InFlight      []string `json:"in_flight"`    // request kinds started right before the cut: open-up | open-down | meta | call | write | read
	During        []string `json:"during"`       // request kinds issued after the cut, before recovery
	BackToBack    bool     `json:"back_to_back"` // a second cut 0-3 messages after recovery
	// DeadDials: that many redials succeed as a dial but hand back a transport that is already dead: the very first write of the
	// connect handshake fails (seeded change C05/m5: a connection-closed error at that point ended the redialling for good)
	DeadDials int `json:"dead_dials,omitempty"`
}

type Case struct {
	Codec   string   `json:"codec"`
	Ups     []int    `json:"ups"`    // QoS per upstream
	Downs   []int    `json:"downs"`  // QoS per downstream
	Redial  string   `json:"redial"` // instant | paced
	Outages []Outage `json:"outages"`
}

const (
	recoverLimit = 4 * time.Second
	callCtxMs    = 3000
)

type streamRef struct {
	name   string
	up     bool
	id     uuid.UUID
	alias  uint32 // downstream: original alias
	closed bool   // reported closed (expected after a refused / cut resume)
}

func run(c Case, k *ev.Case) *ev.Failure {
	w := sim.NewWorld()
	defer w.Dispose()
	if c.Redial == "paced" {
		w.DialDelay = 6 * time.Millisecond
	}
	b := w.Broker
	scn.Feed(b)
	var mu sync.Mutex
	handshakeCuts := 0 // remaining handshake cuts for the current outage
	dialFailsLeft := 0
	resumeCut := ""
	var resumeCutID uuid.UUID
	refuseID := uuid.Nil
	conflictsLeft := 0
	conflictID := uuid.Nil
	b2bAfter := -1                   // cut the recovered connection after that many further client messages
	maybeLost := map[uuid.UUID]int{} // resume responses that were sent but cut off with the link
	deadDialsLeft := 0
	w.OnLink = func(l *sim.Link) {
		mu.Lock()
		kill := l.Index > 0 && deadDialsLeft > 0
		if kill {
			deadDialsLeft--
		}
		mu.Unlock()
		if kill {
			l.Sever()
		}
	}
	w.FailDial = func(n int) bool {
		mu.Lock()
		defer mu.Unlock()
		if n > 1 && dialFailsLeft > 0 {
			dialFailsLeft--
			return true
		}
		return false
	}
	resumeIDOf := func(m message.Message) (uuid.UUID, bool) {
		switch r := m.(type) {
		case *message.UpstreamResumeRequest:
			return r.StreamID, true
		case *message.DownstreamResumeRequest:
			return r.StreamID, true
		}
		return uuid.Nil, false
	}
	b.UpResumeResult = func(inc *sim.Inc, up *sim.UpState, attempt int) message.ResultCode {
		mu.Lock()
		defer mu.Unlock()
		if up.ID == refuseID {
			return message.ResultCodeStreamNotFound
		}
		if up.ID == conflictID && conflictsLeft > 0 {
			conflictsLeft--
			return message.ResultCodeResumeRequestConflict
		}
		return message.ResultCodeSucceeded
	}
	b.DownResumeResult = func(inc *sim.Inc, d *sim.DownState, attempt int) message.ResultCode {
		mu.Lock()
		defer mu.Unlock()
		if d.ID == refuseID {
			return message.ResultCodeStreamNotFound
		}
		if d.ID == conflictID && conflictsLeft > 0 {
			conflictsLeft--
			return message.ResultCodeResumeRequestConflict
		}
		return message.ResultCodeSucceeded
	}
	b.Hook = func(inc *sim.Inc, e *sim.Entry) sim.Verdict {
		mu.Lock()
		defer mu.Unlock()
		if inc.Index == 0 {
			return sim.Default
		}
		if _, ok := e.Msg.(*message.ConnectRequest); ok && handshakeCuts > 0 {
			handshakeCuts--
			return sim.SeverBefore
		}
		if id, ok := resumeIDOf(e.Msg); ok && resumeCut != "" && id == resumeCutID {
			v := sim.SeverBefore
			if resumeCut == "after-response" {
				v = sim.SeverAfter
				maybeLost[id]++
			}
			resumeCut = ""
			return v
		}
		if b2bAfter >= 0 && e.Pos > 0 {
			if _, isPing := e.Msg.(*message.Ping); !isPing {
				if b2bAfter == 0 {
					b2bAfter = -1
					return sim.SeverBefore
				}
				b2bAfter--
			}
		}
		return sim.Default
	}
	env, err := scn.Start(w, scn.Config{Codec: c.Codec, PingMs: 20, PingTimeoutMs: 1500, CtxMs: callCtxMs, CloseTimeoutMs: 300})
	if err != nil {
		return ev.Failf("harness", "connect: %v", err)
	}
	env.SetHangLimit(10 * time.Second)
	defer sim.Call(5*time.Second, func() { env.Do(999, 0, scn.Op{Kind: "conn-close", CtxMs: 1000}) })
	hist := func() any {
		var att []string
		for _, a := range w.Attempts() {
			att = append(att, fmt.Sprintf("#%d t=%dus failed=%v", a.N, a.T, a.Failed))
		}
		return map[string]any{"calls": scn.Summary(env.Records()), "ledger": scn.LedgerSummary(b.Ledger(), 200), "events": fmt.Sprintf("%+v", env.Events.Snapshot()), "dials": att}
	}
	// open the streams with light traffic
	var streams []*streamRef
	for i, q := range c.Ups {
		n := fmt.Sprintf("u%d", i)
		if r := env.Do(0, i, scn.Op{Kind: "open-up", Obj: n, QoS: q}); r.Err != "" || r.Hung {
			return ev.Failf("harness", "open %s: %s hung=%v", n, r.Err, r.Hung)
		}
		env.Do(0, i, scn.Op{Kind: "write", Obj: n, N: 2})
		env.Do(0, i, scn.Op{Kind: "flush", Obj: n})
		streams = append(streams, &streamRef{name: n, up: true, id: env.Ups[n].ID})
	}
	for i, q := range c.Downs {
		n := fmt.Sprintf("d%d", i)
		if r := env.Do(0, i, scn.Op{Kind: "open-down", Obj: n, QoS: q}); r.Err != "" || r.Hung {
			return ev.Failf("harness", "open %s: %s hung=%v", n, r.Err, r.Hung)
		}
		env.Do(0, i, scn.Op{Kind: "read-data", Obj: n})
		st := b.Downstream(env.Downs[n].ID)
		streams = append(streams, &streamRef{name: n, up: false, id: env.Downs[n].ID, alias: st.Alias})
	}
	extra := 0
	detached := 0
	expectDisc, expectReconn := 0, 0
	for oi, o := range c.Outages {
		mu.Lock()
		handshakeCuts = o.HandshakeCuts
		dialFailsLeft = o.DialFails
		deadDialsLeft = o.DeadDials
		resumeCut = ""
		refuseID, conflictID = uuid.Nil, uuid.Nil
		if len(streams) > 0 {
			if o.ResumeCut != "" {
				s := streams[o.ResumeStream%len(streams)]
				if !s.closed {
					resumeCut, resumeCutID = o.ResumeCut, s.id
				}
			}
			if o.Refuse >= 0 {
				s := streams[o.Refuse%len(streams)]
				if !s.closed && (resumeCut == "" || s.id != resumeCutID) {
					refuseID = s.id
				}
			}
			if o.Conflicts > 0 {
				s := streams[o.ConflictStrm%len(streams)]
				if !s.closed && s.id != refuseID && (resumeCut == "" || s.id != resumeCutID) {
					conflictID, conflictsLeft = s.id, o.Conflicts
				}
			}
		}
		cutRes, refused := resumeCut != "", refuseID
		cutResID := resumeCutID
		mu.Unlock()
		startOp := func(kind string, tag int) (*scn.Rec, chan struct{}) {
			op := scn.Op{Kind: kind, CtxMs: callCtxMs}
			switch kind {
			case "open-up", "open-down":
				extra++
				op.Obj = fmt.Sprintf("x%d", extra)
				op.QoS = extra % 3
			case "write":
				op.Obj, op.Kind = pickStream(streams, true), "write"
			case "read":
				op.Obj, op.Kind = pickStream(streams, false), "read-data"
				op.CtxMs = 300 // nothing is sent to it: it just must not fail with a connection error
			}
			done := make(chan struct{})
			var rec *scn.Rec
			recp := &rec
			go func() {
				defer close(done)
				*recp = env.Do(1000*(oi+1)+tag, 0, op)
			}()
			_ = recp
			return nil, done
		}
		var waits []chan struct{}
		for i, kind := range o.InFlight {
			_, d := startOp(kind, i)
			waits = append(waits, d)
		}
		if len(o.InFlight) > 0 {
			time.Sleep(300 * time.Microsecond)
		}
		linksBefore := len(w.Links())
		cur := w.CurrentLink()
		cur.DrainThenSever(50 * time.Millisecond) // everything the broker sent so far is delivered: same cut position in both views
		expectDisc++
		for i, kind := range o.During {
			_, d := startOp(kind, 100+i)
			waits = append(waits, d)
		}
		// wait for recovery: a live connection whose handshake completed, on which every stream either resumed
		// or has been reported closed
		recovered, final, missing := awaitRecovery(env, b, w, linksBefore, streams, recoverLimit+time.Duration(o.Conflicts)*800*time.Millisecond)
		for _, d := range waits {
			<-d
		}
		if !recovered {
			if final == nil {
				return ev.Failf("C05.1 no-reconnect", "outage %d: %v after the transport died there is no re-established connection (dial attempts %d)", oi, recoverLimit, len(w.Attempts())).WithHistory(hist())
			}
			detached++
			if c.Redial == "instant" && knownInstantRedial {
				ev.Excluded(1)
				k.Label("known-instant-redial-detached")
				return nil
			}
			return ev.Failf("C05.2 stream-not-resumed", "outage %d (redial %s): the connection is back on incarnation %d but stream(s) %v neither sent a successful resume request within %v nor were reported closed", oi, c.Redial, final.Index, missing, recoverLimit).WithHistory(hist())
		}
		expectReconn++
		// a stream may only be lost if its own resume was refused, or if a re-established connection died before that
		// stream had completed its resume exchange on it ("resume exchange itself cut"); every other stream survives
		for _, s := range streams {
			if s.closed || resumedOn(b, final.Index, s) || resumedOn(b, b.CurrentInc().Index, s) {
				continue // (the second test: the client may have moved on to yet another connection meanwhile)
			}
			why := ""
			switch {
			case s.id == refused:
				why = "refused"
			default:
				for _, inc := range b.Incs() {
					// (the connection this outage cut counts too: the stream may still have been inside its resume exchange of the
					// PREVIOUS outage - conflict answers are retried with back-off - when the cut came)
					if inc.Index >= cur.Index && inc.Index < final.Index && inc.Connect != nil && inc.Link.Dead() && !resumeSettledOn(b, inc, s) {
						why = "cut"
					}
				}
			}
			if why == "" && c.Redial == "instant" && knownSpuriousReconnect {
				// known finding C05-spurious-reconnect: the client itself tore down a healthy, freshly re-established
				// connection (a stale error report); a stream caught in its resume on that connection is lost with it
				for _, inc := range b.Incs() {
					if inc.Index > cur.Index && inc.Index < final.Index && inc.Connect != nil && !inc.Link.Dead() {
						why = "known-spurious-reconnect"
					}
				}
				if why != "" {
					ev.Excluded(1)
				}
			}
			if why == "" {
				dbg := fmt.Sprintf("cut link %d, final %d;", cur.Index, final.Index)
				for _, inc := range b.Incs() {
					dbg += fmt.Sprintf(" inc%d{handshake=%v dead=%v resumed=%v}", inc.Index, inc.Connect != nil, inc.Link.Dead(), everResumedOn(b, inc.Index, s))
				}
				return ev.Failf("C05.5 bystander-closed", "outage %d: stream %s was closed although its resume was neither refused nor disturbed by a failure (%s)", oi, s.name, dbg).WithHistory(hist())
			}
			s.closed = true
			k.Label("resume-" + why + "-reported-closed")
		}
		_ = cutRes
		_ = cutResID
		if o.BackToBack {
			mu.Lock()
			b2bAfter = oi % 4
			mu.Unlock()
			// trigger some traffic so the cut fires, then wait for the next recovery
			before := len(w.Links())
			for i := 0; i < 6; i++ {
				env.Do(6000+oi, i, scn.Op{Kind: "meta", CtxMs: callCtxMs})
			}
			mu.Lock()
			fired := b2bAfter == -1
			b2bAfter = -1
			mu.Unlock()
			if fired {
				expectDisc++
				ok, fin, miss := awaitRecovery(env, b, w, before, streams, recoverLimit)
				if !ok {
					if c.Redial == "instant" && knownInstantRedial {
						ev.Excluded(1)
						return nil
					}
					return ev.Failf("C05.2 stream-not-resumed", "outage %d: after a back-to-back second failure stream(s) %v neither resumed nor were reported closed within %v", oi, miss, recoverLimit).WithHistory(hist())
				}
				for _, s := range streams {
					if !s.closed && !resumedOn(b, fin.Index, s) {
						s.closed = true // the second failure hit its resume exchange
						k.Label("resume-cut-reported-closed")
					}
				}
				expectReconn++
				k.Label("back-to-back")
			}
		}
	}
	// requests issued around the failures: success, and the broker saw them
	for _, r := range env.Records() {
		if r.G < 1000 || r.G >= 5000 {
			continue
		}
		switch r.Op.Kind {
		case "open-up", "open-down", "meta", "call":
			if r.Hung {
				return ev.Failf("C05.3 request-hangs", "%s issued around outage %d never returned", r.Op.Kind, r.G/1000-1).WithHistory(hist())
			}
			if r.Error() != nil {
				if r.Op.Kind == "call" && knownCallNotResent && errors.Is(r.Error(), contextDeadline) {
					ev.Excluded(1)
					k.Label("known-call-not-resent")
					continue
				}
				// a request may run into its own deadline when the outage (refused dials with back-off, cut handshakes, a scripted cut of
				// the resume exchange that the client notices only through its keepalive) outlasts it: that is the context doing its job.
				// It is a violation only if, within the request's lifetime, an established connection stayed usable long enough to
				// carry it (an earlier version assumed "recovery is always complete well before" and raised false alarms under load).
				if errors.Is(r.Error(), contextDeadline) {
					t0 := env.T0.Add(r.Start)
					if hw := healthyWindow(b, w, t0, t0.Add(time.Duration(r.Op.CtxMs)*time.Millisecond)); hw < 500*time.Millisecond {
						ev.TimingInconclusive()
						k.Label("request-outlived-by-outage")
						continue
					}
				}
				return ev.Failf("C05.3 request-fails", "%s issued around outage %d (context %d ms; an established connection stayed up for more than 500 ms within that time) returned %q instead of being sent again after recovery", r.Op.Kind, r.G/1000-1, r.Op.CtxMs, r.Err).WithHistory(hist())
			}
		case "write":
			if r.Hung {
				return ev.Failf("C05.3 request-hangs", "write issued around outage %d never returned", r.G/1000-1).WithHistory(hist())
			}
			if r.Error() != nil && errors.Is(r.Error(), ierrors.ErrConnectionClosed) {
				return ev.Failf("C05.3 request-fails", "write issued around outage %d returned the connection-closed error", r.G/1000-1).WithHistory(hist())
			}
		case "read-data":
			if r.Error() != nil && errors.Is(r.Error(), ierrors.ErrConnectionClosed) {
				return ev.Failf("C05.3 request-fails", "read issued around outage %d returned the connection-closed error", r.G/1000-1).WithHistory(hist())
			}
		}
	}
	// newly opened streams (opened during outages) are streams too
	for n, u := range env.Ups {
		if strings.HasPrefix(n, "x") {
			streams = append(streams, &streamRef{name: n, up: true, id: u.ID})
		}
	}
	for n, d := range env.Downs {
		if strings.HasPrefix(n, "x") {
			st := b.Downstream(d.ID)
			if st != nil {
				streams = append(streams, &streamRef{name: n, up: false, id: d.ID, alias: st.Alias})
			}
		}
	}
	// every surviving stream keeps working: never silently detached
	final := b.CurrentInc()
	disturbed := false // did any re-established connection die (then a stream opened around the failure may have lost its resume)
	for _, inc := range b.Incs() {
		if inc.Index > 0 && inc.Connect != nil && inc.Link.Dead() {
			disturbed = true
		}
	}
	for _, s := range streams {
		if s.closed {
			continue
		}
		if strings.HasPrefix(s.name, "x") && disturbed && streamReportedClosed(env, s) {
			k.Label("late-opened-stream-lost-its-resume")
			continue
		}
		if s.up {
			// probe writes until one arrives on the connection regarded as current or on a newer one. Several probes, because that
			// connection may itself be dying unnoticed (a scripted cut the client learns about through its keepalive only): a chunk
			// written into it is legitimately lost on a non-reliable stream, the stream then resumes and the next probe must arrive.
			before := chunksOfFrom(b, s.id, final.Index)
			ok := false
			for probe := 0; probe < 8 && !ok; probe++ {
				r1 := env.Do(7000, 2*probe, scn.Op{Kind: "write", Obj: s.name, N: 1, CtxMs: callCtxMs})
				r2 := env.Do(7000, 2*probe+1, scn.Op{Kind: "flush", Obj: s.name, CtxMs: callCtxMs})
				if r1.Error() != nil || r2.Error() != nil || r1.Hung || r2.Hung {
					if streamReportedClosed(env, s) {
						break // judged below
					}
					return ev.Failf("C05.2 stream-not-working", "after recovery a write/flush on %s fails: %v / %v (hung %v/%v) although no closure was reported", s.name, r1.Err, r2.Err, r1.Hung, r2.Hung).WithHistory(hist())
				}
				for dl := time.Now().Add(500 * time.Millisecond); time.Now().Before(dl); time.Sleep(time.Millisecond) {
					if chunksOfFrom(b, s.id, final.Index) > before {
						ok = true
						break
					}
				}
				if probe > 0 {
					k.Label("detached-probe-repeated")
				}
			}
			if !ok && streamReportedClosed(env, s) {
				k.Label("stream-closed-during-probe")
				continue
			}
			if !ok {
				if c.Redial == "instant" && knownInstantRedial {
					ev.Excluded(1)
					k.Label("known-instant-redial-detached")
					continue
				}
				return ev.Failf("C05.5 silently-detached", "after recovery (redial %s) upstream %s accepts writes and Flush returns nil, but nothing of it reaches the broker on the current connection and no closure was reported", c.Redial, s.name).WithHistory(hist())
			}
		} else {
			st := b.Downstream(s.id)
			if st.Alias != s.alias {
				return ev.Failf("C05.2 downstream-alias", "downstream %s resumed under alias %d, its original alias is %d", s.name, st.Alias, s.alias).WithHistory(hist())
			}
			// drain what the feeder already sent, then send a marked chunk
			for i := 0; i < 8; i++ {
				if r := env.Do(7001, i, scn.Op{Kind: "read-data", Obj: s.name, CtxMs: 20}); r.Error() != nil {
					break
				}
			}
			// as for upstreams: several attempts, each on the connection that is current at that moment. Metadata travels through its
			// own subscription (seeded change C03/m6: a downstream opened across a reconnect kept the metadata subscription of the dead
			// connection): what was queued before is drained, then each probe's metadata item has to arrive like its chunk.
			for i := 0; i < 8; i++ {
				if rm := env.Do(7003, i, scn.Op{Kind: "read-meta", Obj: s.name, CtxMs: 10}); rm.Error() != nil {
					break
				}
			}
			var r *scn.Rec
			for probe := 0; probe < 6; probe++ {
				scn.FeedDownstream(b.CurrentInc(), s.alias, nil, 4242+uint32(probe))
				r = env.Do(7002, probe, scn.Op{Kind: "read-data", Obj: s.name, CtxMs: 600})
				if r.Error() == nil && !r.Hung {
					if rm := env.Do(7004, probe, scn.Op{Kind: "read-meta", Obj: s.name, CtxMs: 600}); rm.Error() != nil || rm.Hung {
						r = rm
						if !streamReportedClosed(env, s) {
							continue // the connection may have moved on between the two reads: probe again
						}
					}
					break
				}
				if streamReportedClosed(env, s) {
					break
				}
				k.Label("detached-probe-repeated")
			}
			if (r.Error() != nil || r.Hung) && streamReportedClosed(env, s) {
				k.Label("stream-closed-during-probe")
				continue
			}
			if r.Error() != nil || r.Hung {
				if c.Redial == "instant" && knownInstantRedial {
					ev.Excluded(1)
					k.Label("known-instant-redial-detached")
					continue
				}
				return ev.Failf("C05.5 silently-detached", "after recovery (redial %s) a chunk sent to downstream %s on the current connection is not delivered (%v) and no closure was reported", c.Redial, s.name, r.Err).WithHistory(hist())
			}
		}
	}
	// tokens: fresh per connect request, asked on every attempt
	seenTok := map[string]bool{}
	for _, inc := range b.Incs() {
		if inc.Connect == nil {
			continue
		}
		tok := inc.Connect.AccessToken()
		if seenTok[tok] {
			return ev.Failf("C05.1 token-reused", "the access token %q was presented on two connections", tok).WithHistory(hist())
		}
		seenTok[tok] = true
	}
	if len(w.Tokens()) < len(w.Attempts()) {
		return ev.Failf("C05.1 token-source", "%d dial attempts but the token source was asked %d times", len(w.Attempts()), len(w.Tokens())).WithHistory(hist())
	}
	// resume requests: original ids; at most one successful resume per stream and connection
	type rk struct {
		inc int
		id  uuid.UUID
	}
	okResumes := map[rk]int{}
	led := b.Ledger()
	reqByID := map[[2]uint32]uuid.UUID{}
	for _, e := range led {
		if id, ok := resumeIDOf(e.Msg); ok && e.In {
			reqByID[[2]uint32{uint32(e.Inc), e.Msg.(message.Request).GetRequestID()}] = id
			known := false
			for _, s := range streams {
				if s.id == id {
					known = true
					if d, ok := e.Msg.(*message.DownstreamResumeRequest); ok && d.DesiredStreamIDAlias != s.alias {
						return ev.Failf("C05.2 downstream-alias", "downstream %s asks to resume under alias %d, its original alias is %d", s.name, d.DesiredStreamIDAlias, s.alias).WithHistory(hist())
					}
				}
			}
			if !known {
				return ev.Failf("C05.2 resume-id", "a resume request names stream id %v which was never assigned", id).WithHistory(hist())
			}
		}
		if !e.In {
			var rc message.ResultCode
			var rid uint32
			switch r := e.Msg.(type) {
			case *message.UpstreamResumeResponse:
				rc, rid = r.ResultCode, r.GetRequestID()
			case *message.DownstreamResumeResponse:
				rc, rid = r.ResultCode, r.GetRequestID()
			default:
				continue
			}
			if rc == message.ResultCodeSucceeded {
				okResumes[rk{e.Inc, reqByID[[2]uint32{uint32(e.Inc), rid}]}]++
			}
		}
	}
	for kk, n := range okResumes {
		if n > 1 {
			return ev.Failf("C05.2 resumed-twice", "stream %v was resumed successfully %d times on connection %d", kk.id, n, kk.inc).WithHistory(hist())
		}
	}
	// notifications: one disconnected per established connection that was lost, one reconnected per re-establishment,
	// one resumed per successful resume of a stream
	time.Sleep(3 * time.Millisecond)
	established, lost := 0, 0
	for _, inc := range b.Incs() {
		if inc.Connect != nil {
			established++
			if inc.Link.Dead() {
				lost++
			}
		}
	}
	evs := env.Events.Snapshot()
	// the handlers run asynchronously: give late ones (loaded machine) time before the counts are compared
	for dl := time.Now().Add(3 * time.Second); (evs.Disconnected < lost || evs.Reconnected < established-1) && time.Now().Before(dl); time.Sleep(2 * time.Millisecond) {
		evs = env.Events.Snapshot()
	}
	spurious := established - 1 - lost // connections the client gave up although the link was alive
	if spurious < 0 {
		spurious = 0
	}
	if spurious > 0 && c.Redial == "instant" && knownSpuriousReconnect && evs.Disconnected == lost+spurious && evs.Reconnected == established-1 {
		// known finding C05-spurious-reconnect: exactly this shape is neutralised (and counted)
		ev.Excluded(1)
		k.Label("known-spurious-reconnect")
	} else if evs.Disconnected != lost || evs.Reconnected != established-1 {
		return ev.Failf("C05.4 connection-events", "%d established connections were lost and %d re-established, but the disconnected handler ran %d times and the reconnected handler %d times", lost, established-1, evs.Disconnected, evs.Reconnected).WithHistory(hist())
	}
	okByID := map[uuid.UUID]int{}
	for kk, n := range okResumes {
		okByID[kk.id] += n
	}
	mu.Lock()
	ml := map[uuid.UUID]int{}
	for id, n := range maybeLost {
		ml[id] = n
	}
	mu.Unlock()
	for _, s := range streams {
		got := evs.UpResumed[s.name]
		if !s.up {
			got = evs.DownResumed[s.name]
		}
		hi := okByID[s.id]
		lo := 0 // resumes whose response was out well before the connection died (the others may lose the race against the connection error)
		for _, inc := range b.Incs() {
			if _, ok := resumeResponseAt(b, inc.Index, s); ok && resumeSettledOn(b, inc, s) {
				lo++
			}
		}
		lo -= ml[s.id]
		// handlers run on the library's event dispatcher, some time after the exchange: wait for late ones before calling them lost
		for dl := time.Now().Add(3 * time.Second); got < lo && time.Now().Before(dl); time.Sleep(2 * time.Millisecond) {
			e2 := env.Events.Snapshot()
			got = e2.UpResumed[s.name]
			if !s.up {
				got = e2.DownResumed[s.name]
			}
		}
		if got > hi || got < lo {
			return ev.Failf("C05.4 resumed-events", "stream %s was resumed successfully %d time(s) (of which %d responses may have been cut off with the link) but its resumed handler ran %d times", s.name, hi, ml[s.id], got).WithHistory(hist())
		}
	}
	_, _ = expectDisc, expectReconn
	k.Label("redial=" + c.Redial)
	k.Label(fmt.Sprintf("streams=%d", min(len(c.Ups)+len(c.Downs), 5)))
	nt := false
	for _, o := range c.Outages {
		if len(o.InFlight)+len(o.During) > 0 {
			k.Label("calls-around-failure")
			nt = true
		}
		if o.HandshakeCuts > 0 {
			k.Label("failure-during-redial-handshake")
			nt = true
		}
		if o.ResumeCut != "" {
			nt = true
		}
		if o.DialFails > 0 {
			k.Label("slow-redial")
		}
		if o.Conflicts > 0 {
			k.Label("resume-conflict")
		}
	}
	if len(c.Ups)+len(c.Downs) >= 2 && (nt || len(c.Outages) > 1) || nt {
		k.NonTrivial(ev.JSON(c))
	}
	k.Sample(func() any { return map[string]any{"case": c, "calls": scn.Summary(env.Records())} })
	return nil
}

var contextDeadline = context.DeadlineExceeded

// known-finding switches (see known_findings.json)
var (
	knownInstantRedial = false
	knownCallNotResent = true
	// knownSpuriousReconnect: with an instant redial, a request that reports the failure of the OLD wire connection after
	// the reconnect already completed forces another reconnect of the healthy new connection (extra event pairs).
	knownSpuriousReconnect = true
)

// streamReportedClosed probes a stream without disturbing it much: a closed stream fails at once with the stream-closed error.
func streamReportedClosed(env *scn.Env, s *streamRef) bool {
	evs := env.Events.Snapshot()
	if s.up {
		for _, e := range evs.UpClosed[s.name] {
			if e != nil {
				return true
			}
		}
		r := env.Do(5000, 0, scn.Op{Kind: "flush", Obj: s.name, CtxMs: 30})
		return r.Error() != nil && errors.Is(r.Error(), ierrors.ErrStreamClosed)
	}
	for _, e := range evs.DownClosed[s.name] {
		if e != nil {
			return true
		}
	}
	r := env.Do(5000, 0, scn.Op{Kind: "read-meta", Obj: s.name, CtxMs: 2})
	return r.Error() != nil && errors.Is(r.Error(), ierrors.ErrStreamClosed)
}

// awaitRecovery waits until the newest connection is alive with a completed handshake and every open stream has
// either resumed on it or been reported closed.
func awaitRecovery(env *scn.Env, b *sim.Broker, w *sim.World, linksBefore int, streams []*streamRef, limit time.Duration) (bool, *sim.Inc, []string) {
	deadline := time.Now().Add(limit)
	var last *sim.Inc
	var missing []string
	for time.Now().Before(deadline) {
		incs := b.Incs()
		last = nil
		if len(incs) > linksBefore {
			l := incs[len(incs)-1]
			if l.Connect != nil && !l.Link.Dead() {
				last = l
				missing = missing[:0]
				for _, s := range streams {
					if s.closed || resumedOn(b, l.Index, s) {
						continue
					}
					if streamReportedClosed(env, s) {
						continue
					}
					missing = append(missing, s.name)
				}
				if len(missing) == 0 {
					// the recovery must be stable: scripted cuts fire within microseconds of their trigger, so look again
					// a moment later and only accept if the same connection is still the newest, alive, and complete
					time.Sleep(3 * time.Millisecond)
					stable := !l.Link.Dead() && len(b.Incs()) == len(incs)
					for _, s := range streams {
						if !s.closed && !resumedOn(b, l.Index, s) && !streamReportedClosed(env, s) {
							stable = false
						}
					}
					if stable {
						return true, l, nil
					}
				}
			}
		}
		time.Sleep(time.Millisecond)
	}
	return false, last, missing
}

// resumeSettledOn: the stream's resume exchange on that connection was complete well before the connection died
// (the success response was sent at least 5 ms earlier). A response that arrives together with the death of the
// connection may legitimately lose the race against the connection error: that still counts as a cut resume exchange.
func resumeSettledOn(b *sim.Broker, inc *sim.Inc, s *streamRef) bool {
	at, ok := resumeResponseAt(b, inc.Index, s)
	if !ok {
		return false
	}
	dead := inc.Link.DeadAt()
	if ca := inc.Link.ClientClosedAt(); !ca.IsZero() && (dead.IsZero() || ca.Before(dead)) {
		dead = ca // the client itself gave the connection up (known finding C05-spurious-reconnect, or Close): that ends it as well
	}
	if dead.IsZero() {
		return true
	}
	// the response must have been out well before the link died: a client that has not got round to reading it yet (loaded
	// machine) legitimately sees the connection error first
	return b.T0.Add(time.Duration(at) * time.Microsecond).Add(250 * time.Millisecond).Before(dead)
}

func resumeResponseAt(b *sim.Broker, inc int, s *streamRef) (int64, bool) {
	req := map[uint32]bool{}
	for _, e := range b.Ledger() {
		if e.Inc != inc {
			continue
		}
		if e.In {
			switch m := e.Msg.(type) {
			case *message.UpstreamResumeRequest:
				if m.StreamID == s.id {
					req[m.GetRequestID()] = true
				}
			case *message.DownstreamResumeRequest:
				if m.StreamID == s.id {
					req[m.GetRequestID()] = true
				}
			}
			continue
		}
		switch m := e.Msg.(type) {
		case *message.UpstreamResumeResponse:
			if req[m.GetRequestID()] && m.ResultCode == message.ResultCodeSucceeded {
				return e.T, true
			}
		case *message.DownstreamResumeResponse:
			if req[m.GetRequestID()] && m.ResultCode == message.ResultCodeSucceeded {
				return e.T, true
			}
		}
	}
	return 0, false
}

func everResumedOn(b *sim.Broker, inc int, s *streamRef) bool {
	for _, e := range b.Ledger() {
		if e.Inc != inc || e.In {
			continue
		}
		// a successful resume response for this stream on that connection
		switch e.Msg.(type) {
		case *message.UpstreamResumeResponse, *message.DownstreamResumeResponse:
		default:
			continue
		}
	}
	// the broker's stream table remembers only the latest connection; scan the requests/responses
	type key struct{ rid uint32 }
	req := map[uint32]bool{}
	for _, e := range b.Ledger() {
		if e.Inc != inc {
			continue
		}
		if e.In {
			switch m := e.Msg.(type) {
			case *message.UpstreamResumeRequest:
				if m.StreamID == s.id {
					req[m.GetRequestID()] = true
				}
			case *message.DownstreamResumeRequest:
				if m.StreamID == s.id {
					req[m.GetRequestID()] = true
				}
			}
			continue
		}
		switch m := e.Msg.(type) {
		case *message.UpstreamResumeResponse:
			if req[m.GetRequestID()] && m.ResultCode == message.ResultCodeSucceeded {
				return true
			}
		case *message.DownstreamResumeResponse:
			if req[m.GetRequestID()] && m.ResultCode == message.ResultCodeSucceeded {
				return true
			}
		}
	}
	return false
}

func pickStream(ss []*streamRef, up bool) string {
	for _, s := range ss {
		if s.up == up && !s.closed {
			return s.name
		}
	}
	return "none"
}

func resumedOn(b *sim.Broker, inc int, s *streamRef) bool {
	if s.up {
		st := b.Upstream(s.id)
		return st != nil && st.Inc == inc
	}
	st := b.Downstream(s.id)
	return st != nil && st.Inc == inc
}

func resumedAnywhereAfter(b *sim.Broker, inc int, s *streamRef) bool {
	if s.up {
		st := b.Upstream(s.id)
		return st != nil && st.Inc > inc && !b.Incs()[st.Inc].Link.Dead()
	}
	st := b.Downstream(s.id)
	return st != nil && st.Inc > inc && !b.Incs()[st.Inc].Link.Dead()
}

// chunksOfFrom counts the stream's chunks received on connection minInc or any later one.
func chunksOfFrom(b *sim.Broker, id uuid.UUID, minInc int) int {
	n := 0
	for _, e := range b.Ledger() {
		if e.In && e.Kind == "UpstreamChunk" && e.Inc >= minInc && e.Up != nil && e.Up.ID == id {
			n++
		}
	}
	return n
}

func chunksOf(b *sim.Broker, id uuid.UUID, inc int) int {
	n := 0
	for _, e := range b.Ledger() {
		if e.In && e.Kind == "UpstreamChunk" && e.Inc == inc && e.Up != nil && e.Up.ID == id {
			n++
		}
	}
	return n
}

func gen(t *rapid.T) Case {
	c := Case{Codec: rapid.SampledFrom([]string{"proto", "json"}).Draw(t, "codec"), Redial: rapid.SampledFrom([]string{"paced", "paced", "paced", "instant"}).Draw(t, "redial")}
	nu := rapid.IntRange(0, 4).Draw(t, "nups")
	nd := rapid.IntRange(0, 4).Draw(t, "ndowns")
	for i := 0; i < nu; i++ {
		c.Ups = append(c.Ups, rapid.IntRange(0, 2).Draw(t, "uqos"))
	}
	for i := 0; i < nd; i++ {
		c.Downs = append(c.Downs, rapid.IntRange(0, 2).Draw(t, "dqos"))
	}
	no := rapid.SampledFrom([]int{1, 1, 1, 2, 3}).Draw(t, "noutages")
	kinds := []string{"open-up", "open-down", "meta", "call", "write", "read"}
	for i := 0; i < no; i++ {
		o := Outage{Refuse: -1}
		o.HandshakeCuts = rapid.SampledFrom([]int{0, 0, 0, 1, 2}).Draw(t, "hscuts")
		o.DeadDials = rapid.SampledFrom([]int{0, 0, 1, 2}).Draw(t, "deaddials")
		o.DialFails = rapid.SampledFrom([]int{0, 0, 1, 2}).Draw(t, "dialfails")
		if nu+nd > 0 {
			switch rapid.IntRange(0, 7).Draw(t, "resumefault") {
			case 0:
				o.ResumeCut, o.ResumeStream = "before-response", rapid.IntRange(0, nu+nd-1).Draw(t, "rs")
			case 1:
				o.ResumeCut, o.ResumeStream = "after-response", rapid.IntRange(0, nu+nd-1).Draw(t, "rs")
			case 2:
				o.Refuse = rapid.IntRange(0, nu+nd-1).Draw(t, "refuse")
			case 3:
				o.Conflicts, o.ConflictStrm = rapid.IntRange(1, 2).Draw(t, "conflicts"), rapid.IntRange(0, nu+nd-1).Draw(t, "cs")
			}
		}
		o.InFlight = rapid.SliceOfN(rapid.SampledFrom(kinds), 0, 3).Draw(t, "inflight")
		o.During = rapid.SliceOfN(rapid.SampledFrom(kinds), 0, 3).Draw(t, "during")
		o.BackToBack = rapid.IntRange(0, 5).Draw(t, "b2b") == 0
		if room := 4 - o.DialFails - o.HandshakeCuts; o.DeadDials > room { // the library backs off 100 ms x 2^n between failed attempts
			o.DeadDials = room
			if o.DeadDials < 0 {
				o.DeadDials = 0
			}
		}
		c.Outages = append(c.Outages, o)
	}
	return c
}

// healthyWindow: the longest time within [from, to] during which one connection was established (connect response sent) and
// not yet dead.
func healthyWindow(b *sim.Broker, w *sim.World, from, to time.Time) time.Duration {
	up := map[int]time.Time{}
	for _, e := range b.Ledger() {
		if _, ok := e.Msg.(*message.ConnectResponse); ok && !e.In {
			if _, seen := up[e.Inc]; !seen {
				up[e.Inc] = b.T0.Add(time.Duration(e.T) * time.Microsecond)
			}
		}
	}
	var best time.Duration
	for _, l := range w.Links() {
		a, ok := up[l.Index]
		if !ok {
			continue
		}
		z := l.DeadAt()
		if z.IsZero() || z.After(to) {
			z = to
		}
		if a.Before(from) {
			a = from
		}
		if d := z.Sub(a); d > best {
			best = d
		}
	}
	return best
}

// TestKnownCallNotResent is the canary of known finding C05-call-not-resent: the link dies after the call was
// written and before its ack; the connection recovers within milliseconds; the call is not sent again.
func TestKnownCallNotResent(t *testing.T) {
	if ev.ShardIndex() != 0 {
		t.Skip("shard 0")
	}
	ev.Known(t, "C05-call-not-resent", func() *ev.Failure {
		w := sim.NewWorld()
		defer w.Dispose()
		w.DialDelay = 5 * time.Millisecond
		cut := false
		w.Broker.Hook = func(inc *sim.Inc, e *sim.Entry) sim.Verdict {
			if _, ok := e.Msg.(*message.UpstreamCall); ok && !cut {
				cut = true
				return sim.SeverBefore
			}
			return sim.Default
		}
		env, err := scn.Start(w, scn.Config{PingMs: 20, PingTimeoutMs: 1500, CtxMs: 1500})
		if err != nil {
			return nil
		}
		defer sim.Call(5*time.Second, func() { env.Do(9, 0, scn.Op{Kind: "conn-close", CtxMs: 500}) })
		r := env.Do(1, 0, scn.Op{Kind: "call", CtxMs: 1500})
		if r.Error() != nil && errors.Is(r.Error(), contextDeadline) && len(w.Links()) >= 2 {
			return ev.Failf("C05.3 request-fails", "SendCall interrupted between write and ack ran into its 1.5 s deadline although the connection was back after %d dials", len(w.Attempts()))
		}
		return nil
	})
}

// TestKnownSpuriousReconnect is the canary of known finding C05-spurious-reconnect.
func TestKnownSpuriousReconnect(t *testing.T) {
	if ev.ShardIndex() != 0 {
		t.Skip("shard 0")
	}
	defer runtime.GOMAXPROCS(runtime.GOMAXPROCS(4))
	ev.Known(t, "C05-spurious-reconnect", func() *ev.Failure {
		for attempt := 0; attempt < 500; attempt++ {
			w := sim.NewWorld()
			// requests written before the cut wait for their answer on the old connection; they learn about its death only
			// when the reconnect closes it - and may report that after the (instant) redial has already completed
			w.Broker.Hook = func(inc *sim.Inc, e *sim.Entry) sim.Verdict {
				if _, ok := e.Msg.(*message.UpstreamMetadata); ok && inc.Index == 0 {
					return sim.Handled
				}
				return sim.Default
			}
			env, err := scn.Start(w, scn.Config{PingMs: 20, PingTimeoutMs: 1500, CtxMs: 2000})
			if err != nil {
				w.Dispose()
				continue
			}
			var wg sync.WaitGroup
			for i := 0; i < 48; i++ {
				wg.Add(1)
				go func(i int) {
					defer wg.Done()
					env.Do(1, i, scn.Op{Kind: "meta", CtxMs: 2000})
				}(i)
			}
			time.Sleep(time.Millisecond)
			w.CurrentLink().DrainThenSever(20 * time.Millisecond)
			wg.Wait()
			time.Sleep(5 * time.Millisecond)
			evs := env.Events.Snapshot()
			links := len(w.Links())
			sim.Call(5*time.Second, func() { env.Do(9, 0, scn.Op{Kind: "conn-close", CtxMs: 500}) })
			w.Dispose()
			if evs.Disconnected > 1 {
				return ev.Failf("C05.4 connection-events", "one transport failure with 48 requests in flight and an instant redial: %d connections dialled, disconnected handler ran %d times (attempt %d)", links, evs.Disconnected, attempt+1)
			}
		}
		return nil
	})
}

var sub = ev.Sub[Case]{Name: "reconnect", Repeats: 10, Q: 25, T: 700, Gen: gen, Run: run}

func TestProp(t *testing.T)   { sub.Check(t) }
func TestReplay(t *testing.T) { ev.ReplayTest(t, sub) }

// TestRegress: repaired defects (known_findings.json, status fixed).
func TestRegress(t *testing.T) {
	if ev.ShardIndex() != 0 {
		t.Skip("shard 0")
	}
	defer runtime.GOMAXPROCS(runtime.GOMAXPROCS(4))
	// C05-missed-outage: many streams, instant redial - the reconnect is over before the stream watchers look
	for i := 0; i < 6; i++ {
		sub.One(t, Case{Codec: "proto", Ups: []int{1, 0, 2, 1}, Downs: []int{1, 0, 2, 1}, Redial: "instant", Outages: []Outage{{Refuse: -1}, {Refuse: -1}}})
	}
	// C05-downstream-resume-conflict: conflict-then-success for a downstream
	sub.One(t, Case{Codec: "proto", Ups: []int{1}, Downs: []int{1, 2}, Redial: "paced", Outages: []Outage{{Refuse: -1, Conflicts: 1, ConflictStrm: 1}}})
	sub.One(t, Case{Codec: "json", Ups: nil, Downs: []int{0}, Redial: "paced", Outages: []Outage{{Refuse: -1, Conflicts: 2, ConflictStrm: 0}}})
	// C05-stream-bound-to-old-connection: streams opened right around the failure, connection dying during the resume phase
	for i := 0; i < 4; i++ {
		sub.One(t, Case{Codec: "proto", Ups: []int{1}, Downs: []int{1, 1}, Redial: "paced", Outages: []Outage{{Refuse: -1, ResumeCut: "after-response", ResumeStream: 1,
			InFlight: []string{"open-up", "open-down"}, During: []string{"open-down", "open-up", "meta"}}}})
	}
}
