#!/bin/bash
# tools/confirm_demo.sh <seeded/<ID>/<m>> <package dir inside the repo> [extra go test flags]
# Confirms a seeded change in a scratch worktree of /repo (HEAD): demonstration fails with the patch, passes without.
set -u
d=$(readlink -f "$1"); pkg="$2"; shift 2
wt=/tmp/mut/confirm-$$
export GOFLAGS=-mod=mod GOPROXY=off
git -C /repo worktree add -q --detach "$wt" HEAD || exit 2
trap 'git -C /repo worktree remove --force "$wt" >/dev/null 2>&1' EXIT
cp "$d/demonstration/demo_test.go" "$wt/$pkg/zz_demo_test.go"
(cd "$wt" && go test -vet=off -count=1 -timeout 300s "$@" -run 'Demo|C05M|C0' "./$pkg/" > /tmp/confirm_clean.log 2>&1); rc_clean=$?
git -C "$wt" apply "$d/patch.diff" || { echo "patch does not apply"; exit 2; }
(cd "$wt" && go test -vet=off -count=1 -timeout 300s "$@" -run 'Demo|C05M|C0' "./$pkg/" > /tmp/confirm_patched.log 2>&1); rc_patched=$?
echo "clean rc=$rc_clean patched rc=$rc_patched"
if [ $rc_clean -eq 0 ] && [ $rc_patched -ne 0 ]; then echo CONFIRMED; else echo NOT-CONFIRMED; tail -5 /tmp/confirm_clean.log; tail -5 /tmp/confirm_patched.log; fi
