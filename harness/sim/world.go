package sim

import (
	"context"
	"errors"
	"fmt"
	"sync"
	"sync/atomic"
	"time"

	"github.com/aptpod/iscp-go/iscp"
	"github.com/aptpod/iscp-go/transport"
)

// TransportName is the name under which the dispatcher dialer is registered (once per process).
const TransportName iscp.TransportName = "sim"

var (
	worldsMu sync.RWMutex
	worlds   = map[string]*World{}
	worldSeq uint64
	regOnce  sync.Once
)

type dispatcher struct{}

func (dispatcher) Dial(cfg transport.DialConfig) (transport.Transport, error) {
	worldsMu.RLock()
	w := worlds[cfg.Address]
	worldsMu.RUnlock()
	if w == nil {
		return nil, fmt.Errorf("sim: no world for address %q", cfg.Address)
	}
	return w.dial(cfg)
}

// DialAttempt describes one dial as seen by the world.
type DialAttempt struct {
	N      int // 1-based attempt number
	T      int64
	Config transport.DialConfig
	Failed bool
}

// World is the environment of one case: a broker plus the dialer that connects the library to it.
type World struct {
	Address string
	Broker  *Broker

	mu       sync.Mutex
	attempts []DialAttempt
	links    []*Link
	tokens   []string
	closed   bool

	// DialDelay is slept before a dial returns (paced redial). Applies to redials (attempt > 1).
	DialDelay time.Duration
	// FailDial decides whether dial attempt n (1-based) fails.
	FailDial func(n int) bool
	// Unreliable: links get an unreliable twin.
	Unreliable bool
	// OnLink is called for each new link before the broker serves it.
	OnLink func(l *Link)
}

// NewWorld creates a world with a fresh broker and registers it.
func NewWorld() *World {
	regOnce.Do(func() {
		iscp.VerifRegisterDialer(TransportName, func() transport.Dialer { return dispatcher{} })
	})
	w := &World{Address: fmt.Sprintf("sim-%d", atomic.AddUint64(&worldSeq, 1)), Broker: NewBroker(), DialDelay: 0}
	worldsMu.Lock()
	worlds[w.Address] = w
	worldsMu.Unlock()
	return w
}

// Dispose severs everything and unregisters the world.
func (w *World) Dispose() {
	w.mu.Lock()
	w.closed = true
	links := append([]*Link(nil), w.links...)
	w.mu.Unlock()
	for _, l := range links {
		l.Sever()
	}
	worldsMu.Lock()
	delete(worlds, w.Address)
	worldsMu.Unlock()
}

func (w *World) dial(cfg transport.DialConfig) (transport.Transport, error) {
	w.mu.Lock()
	n := len(w.attempts) + 1
	fail := w.closed || (w.FailDial != nil && w.FailDial(n))
	w.attempts = append(w.attempts, DialAttempt{N: n, T: Since(w.Broker.T0), Config: cfg, Failed: fail})
	delay := w.DialDelay
	w.mu.Unlock()
	if n > 1 && delay > 0 {
		time.Sleep(delay)
	}
	if fail {
		return nil, errors.New("sim: dial refused")
	}
	w.mu.Lock()
	l := NewLink(len(w.links), cfg)
	if w.Unreliable {
		l.Unrel = NewLink(l.Index, cfg)
	}
	w.links = append(w.links, l)
	on := w.OnLink
	w.mu.Unlock()
	if on != nil {
		on(l)
	}
	w.Broker.Serve(l)
	return l.ClientTransport(), nil
}

// Links returns the links dialled so far.
func (w *World) Links() []*Link {
	w.mu.Lock()
	defer w.mu.Unlock()
	return append([]*Link(nil), w.links...)
}

// CurrentLink returns the newest link.
func (w *World) CurrentLink() *Link {
	w.mu.Lock()
	defer w.mu.Unlock()
	if len(w.links) == 0 {
		return nil
	}
	return w.links[len(w.links)-1]
}

func (w *World) Attempts() []DialAttempt {
	w.mu.Lock()
	defer w.mu.Unlock()
	return append([]DialAttempt(nil), w.attempts...)
}

// TokenSource returns a token source that hands out tok-1, tok-2, ... and records the calls.
func (w *World) TokenSource() iscp.TokenSource {
	return iscp.TokenSourceFunc(func() (iscp.Token, error) {
		w.mu.Lock()
		defer w.mu.Unlock()
		t := fmt.Sprintf("tok-%d", len(w.tokens)+1)
		w.tokens = append(w.tokens, t)
		return iscp.Token(t), nil
	})
}

func (w *World) Tokens() []string {
	w.mu.Lock()
	defer w.mu.Unlock()
	return append([]string(nil), w.tokens...)
}

// Connect connects the library to this world's broker.
func (w *World) Connect(opts ...iscp.ConnOption) (*iscp.Conn, error) {
	all := append([]iscp.ConnOption{iscp.WithConnTokenSource(w.TokenSource()), iscp.WithConnNodeID("node-under-test")}, opts...)
	return iscp.Connect(w.Address, TransportName, all...)
}

// Call runs f under a watchdog: if f does not return within d the call is abandoned.
// It returns (returned, elapsed).
func Call(d time.Duration, f func()) (bool, time.Duration) {
	done := make(chan struct{})
	t0 := time.Now()
	go func() {
		defer close(done)
		f()
	}()
	select {
	case <-done:
		return true, time.Since(t0)
	case <-time.After(d):
		return false, time.Since(t0)
	}
}

// Ctx returns a context with timeout d.
func Ctx(d time.Duration) (context.Context, context.CancelFunc) {
	return context.WithTimeout(context.Background(), d)
}
