// Package sim is the in-memory world the connection-level checks run in: links (one per transport
// incarnation) that can be severed at a message boundary, a dialer that hands them out, and a
// scriptable broker that keeps a ledger of everything it saw and sent.
package sim

import (
	"sync"
	"sync/atomic"
	"time"

	"github.com/aptpod/iscp-go/transport"
)

// queue is an unbounded FIFO of byte messages with close.
type queue struct {
	mu     sync.Mutex
	items  [][]byte
	closed bool
	wake   chan struct{} // capacity 1
}

func newQueue() *queue { return &queue{wake: make(chan struct{}, 1)} }

func (q *queue) push(b []byte) bool {
	q.mu.Lock()
	if q.closed {
		q.mu.Unlock()
		return false
	}
	q.items = append(q.items, b)
	q.mu.Unlock()
	select {
	case q.wake <- struct{}{}:
	default:
	}
	return true
}

// pop blocks until an item is available or the queue is closed (and drained unless discard).
func (q *queue) pop(stop <-chan struct{}) ([]byte, bool) {
	for {
		q.mu.Lock()
		if len(q.items) > 0 {
			b := q.items[0]
			q.items = q.items[1:]
			more := len(q.items) > 0
			q.mu.Unlock()
			if more {
				select {
				case q.wake <- struct{}{}:
				default:
				}
			}
			return b, true
		}
		if q.closed {
			q.mu.Unlock()
			return nil, false
		}
		q.mu.Unlock()
		select {
		case <-q.wake:
		case <-stop:
			return nil, false
		}
	}
}

func (q *queue) close(discard bool) {
	q.mu.Lock()
	q.closed = true
	if discard {
		q.items = nil
	}
	q.mu.Unlock()
	select {
	case q.wake <- struct{}{}:
	default:
	}
}

func (q *queue) length() int {
	q.mu.Lock()
	defer q.mu.Unlock()
	return len(q.items)
}

// writeSeq orders the client's writes across all links of the process (a connection's reliable and datagram sides are two links:
// the broker reads them on two goroutines, so the order of the ledger is not the order in which the client wrote).
var writeSeq uint64

// Link is one transport incarnation between the client and the broker.
type Link struct {
	Index   int
	Config  transport.DialConfig
	toCli   *queue
	toBrk   *queue
	dead    chan struct{} // closed by Sever: hard cut
	cliDone chan struct{} // closed when the client called Close
	once    sync.Once
	conce   sync.Once
	tx, rx  uint64

	// unreliable twin (datagram-like) link, optional
	Unrel *Link
	// deadAt: when Sever was called (unix nanoseconds), 0 while alive
	deadAt int64
	// cliDoneAt: when the client called Close (unix nanoseconds), 0 before
	cliDoneAt int64
	// writeBroken: client writes fail while reads still block (half-open connection)
	writeBroken int32
	// wseq: client write sequence numbers of the messages queued towards the broker, in queue order; rcount: how many were received
	wmu    sync.Mutex
	wseq   []uint64
	rcount int
	// CloseDelay: the client's Close takes that long (a transport whose close handshake waits for a peer that is gone)
	CloseDelay time.Duration

	// write stall (a peer that has stopped reading: back-pressure): client writes block while stalled
	stallMu sync.Mutex
	stall   chan struct{} // non-nil while stalled; closed by ResumeWrites
}

// StallWrites makes client writes on this link block (as on a transport whose peer does not read) until ResumeWrites,
// the link's death or the client's Close.
func (l *Link) StallWrites() {
	l.stallMu.Lock()
	if l.stall == nil {
		l.stall = make(chan struct{})
	}
	l.stallMu.Unlock()
}

func (l *Link) ResumeWrites() {
	l.stallMu.Lock()
	if l.stall != nil {
		close(l.stall)
		l.stall = nil
	}
	l.stallMu.Unlock()
}

func (l *Link) stalled() chan struct{} {
	l.stallMu.Lock()
	defer l.stallMu.Unlock()
	return l.stall
}

func NewLink(index int, cfg transport.DialConfig) *Link {
	return &Link{Index: index, Config: cfg, toCli: newQueue(), toBrk: newQueue(), dead: make(chan struct{}), cliDone: make(chan struct{})}
}

// Sever cuts the link hard: queued messages in both directions are discarded, client reads
// return EOF and client writes fail at once.
func (l *Link) Sever() {
	l.once.Do(func() {
		atomic.StoreInt64(&l.deadAt, time.Now().UnixNano())
		close(l.dead)
		l.toCli.close(true)
		l.toBrk.close(true)
	})
	if l.Unrel != nil {
		l.Unrel.Sever()
	}
}

// DrainThenSever waits (up to max) until the client has read everything the broker queued so far and then
// cuts the link: the cut position is then the same in the broker's and in the client's view.
func (l *Link) DrainThenSever(max time.Duration) {
	deadline := time.Now().Add(max)
	for l.toCli.length() > 0 && time.Now().Before(deadline) && !l.Dead() {
		time.Sleep(20 * time.Microsecond)
	}
	l.Sever()
}

// CloseGracefully ends the link from the broker side after everything queued was delivered.
func (l *Link) CloseGracefully() {
	l.toCli.close(false)
}

// DeadAt returns the moment the link was severed (zero time while alive).
func (l *Link) DeadAt() time.Time {
	n := atomic.LoadInt64(&l.deadAt)
	if n == 0 {
		return time.Time{}
	}
	return time.Unix(0, n)
}

// BreakWrites makes the link half-open: from now on client writes fail at once, while the client's reads keep blocking (no EOF) -
// the way a connection looks whose outgoing path died first. The client has to notice through a failed write or its keepalive.
func (l *Link) BreakWrites() { atomic.StoreInt32(&l.writeBroken, 1) }

// ClientClosedAt returns the moment the client closed its end (zero time before).
func (l *Link) ClientClosedAt() time.Time {
	n := atomic.LoadInt64(&l.cliDoneAt)
	if n == 0 {
		return time.Time{}
	}
	return time.Unix(0, n)
}

func (l *Link) Dead() bool {
	select {
	case <-l.dead:
		return true
	default:
		return false
	}
}

// ClientClosed is closed once the client side called Close.
func (l *Link) ClientClosed() <-chan struct{} { return l.cliDone }

// Send queues a raw message towards the client (broker side).
func (l *Link) Send(b []byte) bool {
	if l.Dead() {
		return false
	}
	return l.toCli.push(b)
}

// Recv blocks for the next raw message from the client (broker side). ok=false: link is over.
func (l *Link) Recv() ([]byte, bool) {
	b, _, ok := l.RecvSeq()
	return b, ok
}

// RecvSeq is Recv plus the client's write sequence number of the message (process-wide order of the client's writes).
func (l *Link) RecvSeq() ([]byte, uint64, bool) {
	b, ok := l.toBrk.pop(l.dead)
	if !ok {
		return nil, 0, false
	}
	l.wmu.Lock()
	var seq uint64
	if l.rcount < len(l.wseq) {
		seq = l.wseq[l.rcount]
	}
	l.rcount++
	l.wmu.Unlock()
	return b, seq, true
}

// PendingToClient reports how many messages the client has not read yet.
func (l *Link) PendingToClient() int { return l.toCli.length() }

// clientEnd implements transport.Transport for the library.
type clientEnd struct {
	l      *Link
	closed int32
}

func (c *clientEnd) Read() ([]byte, error) {
	b, ok := c.l.toCli.pop(c.l.cliDone)
	if !ok {
		if atomic.LoadInt32(&c.closed) != 0 {
			return nil, transport.ErrAlreadyClosed
		}
		return nil, transport.EOF
	}
	atomic.AddUint64(&c.l.rx, uint64(len(b)))
	return b, nil
}

func (c *clientEnd) Write(b []byte) error {
	if atomic.LoadInt32(&c.closed) != 0 || c.l.Dead() || atomic.LoadInt32(&c.l.writeBroken) != 0 {
		return transport.ErrAlreadyClosed
	}
	if st := c.l.stalled(); st != nil {
		select {
		case <-st:
		case <-c.l.dead:
			return transport.ErrAlreadyClosed
		case <-c.l.cliDone:
			return transport.ErrAlreadyClosed
		}
	}
	cp := make([]byte, len(b))
	copy(cp, b)
	c.l.wmu.Lock()
	ok := c.l.toBrk.push(cp)
	if ok {
		c.l.wseq = append(c.l.wseq, atomic.AddUint64(&writeSeq, 1))
	}
	c.l.wmu.Unlock()
	if !ok {
		return transport.ErrAlreadyClosed
	}
	atomic.AddUint64(&c.l.tx, uint64(len(b)))
	return nil
}

func (c *clientEnd) Close() error {
	if d := c.l.CloseDelay; d > 0 {
		time.Sleep(d)
	}
	atomic.StoreInt32(&c.closed, 1)
	c.l.conce.Do(func() {
		atomic.StoreInt64(&c.l.cliDoneAt, time.Now().UnixNano())
		close(c.l.cliDone)
		c.l.toBrk.close(false) // the broker still sees what was written before Close (e.g. Disconnect)
	})
	return nil
}

func (c *clientEnd) RxBytesCounterValue() uint64 { return atomic.LoadUint64(&c.l.rx) }
func (c *clientEnd) TxBytesCounterValue() uint64 { return atomic.LoadUint64(&c.l.tx) }

func (c *clientEnd) AsUnreliable() (transport.UnreliableTransport, bool) {
	if c.l.Unrel == nil {
		return nil, false
	}
	return &unrelEnd{clientEnd{l: c.l.Unrel}}, true
}

func (c *clientEnd) NegotiationParams() transport.NegotiationParams {
	return c.l.Config.NegotiationParams()
}

func (c *clientEnd) Name() transport.Name { return transport.Name("sim") }

type unrelEnd struct{ clientEnd }

func (u *unrelEnd) IsUnreliable() {}

// ClientTransport returns the client end of the link.
func (l *Link) ClientTransport() transport.Transport { return &clientEnd{l: l} }

// Since returns a monotonic duration since t0 in microseconds.
func Since(t0 time.Time) int64 { return int64(time.Since(t0) / time.Microsecond) }
