// Package c01: on a connection that stays up, an upstream delivers every accepted data point exactly
// once, intact and accounted (chunks 1..N, close totals, hooks).
package c01

import (
	"bytes"
	"context"
	"fmt"
	"runtime"
	"sort"
	"sync"
	"testing"
	"time"

	"github.com/aptpod/iscp-go/iscp"
	"github.com/aptpod/iscp-go/message"
	"pgregory.net/rapid"

	"verifharness/ev"
	"verifharness/sim"
	"verifharness/upk"
)

func TestMain(m *testing.M) { ev.MainExit(m, "C01") }

// Case is one generated scenario.
type Case struct {
	Codec   string      `json:"codec"`
	QoS     int         `json:"qos"`
	Policy  upk.Policy  `json:"policy"`
	PreIDs  []int       `json:"pre_ids"`
	Writers [][]upk.Op  `json:"writers"`
	Ack     upk.AckPlan `json:"ack"`
	// CloseAfterUs > 0: Close is called from another goroutine that many microseconds after the writers started, i.e. while they
	// are still writing ("all interleavings of Write/Flush/Close"). Writes that return nil count as accepted, the others not.
	CloseAfterUs int `json:"close_after_us,omitempty"`
}

func gen(t *rapid.T) Case {
	c := Case{
		Codec:  rapid.SampledFrom([]string{"proto", "json"}).Draw(t, "codec"),
		QoS:    rapid.IntRange(0, 2).Draw(t, "qos"),
		Policy: upk.GenPolicy(t),
		Ack:    upk.GenAckPlan(t),
	}
	npre := rapid.IntRange(0, 3).Draw(t, "npre")
	for i := 0; i < npre; i++ {
		c.PreIDs = append(c.PreIDs, i)
	}
	nw := rapid.SampledFrom([]int{1, 1, 2, 3, 4}).Draw(t, "nwriters")
	for w := 0; w < nw; w++ {
		c.Writers = append(c.Writers, upk.GenProgram(t, 25, 5, true))
	}
	if rapid.IntRange(0, 3).Draw(t, "closerace") == 0 {
		c.CloseAfterUs = rapid.IntRange(1, 2500).Draw(t, "closeafter")
	}
	return c
}

const perCall = 10 * time.Second

type history struct {
	Accepted   []upk.Accepted
	WriteErrs  []string
	CloseErr   string
	Ledger     []*sim.Entry
	Before     []iscp.UpstreamChunk
	AfterAtEnd []iscp.UpstreamChunkResult
	AfterAtRet int // number of ack-hook calls seen when Close returned
	Sent       []upk.SentResult
}

func summarize(h *history) any {
	var led []string
	for _, e := range h.Ledger {
		if e.Kind == "Ping" || e.Kind == "Pong" {
			continue
		}
		dir := "->"
		if e.In {
			dir = "<-"
		}
		s := fmt.Sprintf("%d %s %s", e.T, dir, e.Kind)
		if ch, ok := e.Msg.(*message.UpstreamChunk); ok {
			s += fmt.Sprintf(" seq=%d points=%d ids=%d %s", ch.StreamChunk.SequenceNumber, len(e.Points), len(ch.DataIDs), e.ResolveErr)
		}
		if a, ok := e.Msg.(*message.UpstreamChunkAck); ok {
			for _, r := range a.Results {
				s += fmt.Sprintf(" ack(%d,%d)", r.SequenceNumber, r.ResultCode)
			}
			s += fmt.Sprintf(" aliases=%d", len(a.DataIDAliases))
		}
		if cr, ok := e.Msg.(*message.UpstreamCloseRequest); ok {
			s += fmt.Sprintf(" final=%d total=%d", cr.FinalSequenceNumber, cr.TotalDataPoints)
		}
		led = append(led, s)
	}
	if len(led) > 400 {
		led = append(led[:200], led[len(led)-200:]...)
	}
	return map[string]any{"ledger": led, "write_errors": h.WriteErrs, "close_error": h.CloseErr, "accepted_writes": len(h.Accepted),
		"ack_hooks_at_close_return": h.AfterAtRet, "ack_hooks_at_end": len(h.AfterAtEnd), "send_hooks": len(h.Before)}
}

// run executes the case; abort != "" means a call hung (C08's business).
func run(c Case) (h *history, abort string, fail *ev.Failure) {
	w := sim.NewWorld()
	defer w.Dispose()
	script := upk.NewAckScript(w.Broker, c.Ack)
	w.Broker.OnChunk = script.OnChunk
	w.Broker.OpenAliases = script.OpenAliases

	enc := iscp.EncodingNameProtobuf
	if c.Codec == "json" {
		enc = iscp.EncodingNameJSON
	}
	conn, err := w.Connect(iscp.WithConnEncoding(enc))
	if err != nil {
		return nil, "", ev.Failf("harness", "connect: %v", err)
	}
	defer func() {
		sim.Call(perCall, func() { conn.Close(context.Background()) })
	}()
	rec := &upk.HookRec{}
	pre := make([]*message.DataID, len(c.PreIDs))
	for i, p := range c.PreIDs {
		pre[i] = upk.DataID(p)
	}
	var up *iscp.Upstream
	ok, _ := sim.Call(perCall, func() {
		ctx, cancel := sim.Ctx(perCall)
		defer cancel()
		up, err = conn.OpenUpstream(ctx, "session-c01", iscp.WithUpstreamQoS(message.QoS(c.QoS)), c.Policy.Option(),
			iscp.WithUpstreamDataIDs(pre), iscp.WithUpstreamReceiveAckHooker(rec), iscp.WithUpstreamSendDataPointsHooker(rec),
			iscp.WithUpstreamClosedEventHandler(rec), iscp.WithUpstreamCloseTimeout(perCall))
	})
	if !ok {
		return nil, "OpenUpstream", nil
	}
	if err != nil {
		return nil, "", ev.Failf("harness", "open upstream: %v", err)
	}
	h = &history{}
	results := make([]upk.WriterResult, len(c.Writers))
	var wg sync.WaitGroup
	for i := range c.Writers {
		wg.Add(1)
		go func(i int) {
			defer wg.Done()
			ctr := 0
			results[i] = upk.RunWriter(up, i, c.Writers[i], perCall, &ctr)
		}(i)
	}
	var cerr error
	closeDone := make(chan bool, 1)
	doClose := func() {
		ok, _ := sim.Call(perCall+2*time.Second, func() {
			ctx, cancel := sim.Ctx(perCall)
			defer cancel()
			cerr = up.Close(ctx)
		})
		closeDone <- ok
	}
	if c.CloseAfterUs > 0 {
		go func() {
			time.Sleep(time.Duration(c.CloseAfterUs) * time.Microsecond)
			doClose()
		}()
	}
	wg.Wait()
	for _, r := range results {
		if r.Hung != "" {
			return nil, r.Hung, nil
		}
		h.Accepted = append(h.Accepted, r.Accepted...)
		if c.CloseAfterUs == 0 {
			h.WriteErrs = append(h.WriteErrs, r.Errors...)
		}
	}
	if c.CloseAfterUs == 0 {
		go doClose()
	}
	if ok := <-closeDone; !ok {
		return nil, "Upstream.Close", nil
	}
	_, after, _ := rec.Snapshot()
	h.AfterAtRet = len(after)
	if cerr != nil {
		h.CloseErr = cerr.Error()
	}
	// grace period so that late hooks are told apart from lost ones
	want := len(script.Results())
	for i := 0; i < 400; i++ {
		b, a, _ := rec.Snapshot()
		if len(a) >= want && len(b) >= countChunks(w.Broker.Ledger()) {
			break
		}
		time.Sleep(500 * time.Microsecond)
	}
	h.Ledger = w.Broker.Ledger()
	h.Before, h.AfterAtEnd, _ = rec.Snapshot()
	h.Sent = script.Results()
	return h, "", nil
}

func countChunks(l []*sim.Entry) int {
	n := 0
	for _, e := range l {
		if e.In && e.Kind == "UpstreamChunk" {
			n++
		}
	}
	return n
}

// oracle checks the history against the statement. known = exclusions for known findings.
func oracle(c Case, h *history, k *ev.Case) *ev.Failure {
	if len(h.WriteErrs) > 0 || h.CloseErr != "" {
		// the statement is conditional on nil returns; on a healthy link an error is unexpected, but it is
		// not what this property is about
		k.Label("call-returned-error")
		return nil
	}
	var chunks []*sim.Entry
	var closeReqs []*sim.Entry
	for _, e := range h.Ledger {
		if !e.In {
			continue
		}
		switch e.Kind {
		case "UpstreamChunk":
			chunks = append(chunks, e)
		case "UpstreamCloseRequest":
			closeReqs = append(closeReqs, e)
		}
	}
	// clause 1: content
	var accepted []sim.Point
	for _, a := range h.Accepted {
		accepted = append(accepted, a.Points...)
	}
	bySeq := map[uint32]*sim.Entry{}
	var received []sim.Point
	for _, e := range chunks {
		if e.ResolveErr != "" {
			return ev.Failf("C01.1 alias-resolution", "%s", e.ResolveErr).WithHistory(summarize(h))
		}
		seq := e.Msg.(*message.UpstreamChunk).StreamChunk.SequenceNumber
		if _, dup := bySeq[seq]; dup {
			return ev.Failf("C01.2 sequence-reuse", "sequence number %d received twice on a healthy link", seq).WithHistory(summarize(h))
		}
		bySeq[seq] = e
		received = append(received, e.Points...)
	}
	ak, rk := upk.SortedKeys(accepted), upk.SortedKeys(received)
	if len(ak) != len(rk) {
		return ev.Failf("C01.1 multiset", "accepted %d points, broker received %d: %s", len(ak), len(rk), firstDiff(ak, rk)).WithHistory(summarize(h))
	}
	for i := range ak {
		if ak[i] != rk[i] {
			return ev.Failf("C01.1 multiset", "accepted and received points differ: %s", firstDiff(ak, rk)).WithHistory(summarize(h))
		}
	}
	// clause 2: 1..N
	n := uint32(len(chunks))
	for s := uint32(1); s <= n; s++ {
		if bySeq[s] == nil {
			return ev.Failf("C01.2 sequence-gap", "%d chunks received but sequence number %d is missing", n, s).WithHistory(summarize(h))
		}
	}
	// clause 1b: per (writer, data id) order when chunks are concatenated by sequence number
	last := map[string]time.Duration{}
	for s := uint32(1); s <= n; s++ {
		for _, p := range bySeq[s].Points {
			key := fmt.Sprintf("%d|%s|%s", upk.WriterOf(p.Elapsed), p.Name, p.Type)
			if prev, ok := last[key]; ok && p.Elapsed <= prev {
				return ev.Failf("C01.1 order", "points of writer/data id %s out of write order at seq %d (elapsed %v after %v)", key, s, p.Elapsed, prev).WithHistory(summarize(h))
			}
			last[key] = p.Elapsed
		}
	}
	// clause 6: DataIDs listed == full-form ids of the chunk, each once
	for _, e := range chunks {
		ch := e.Msg.(*message.UpstreamChunk)
		full := map[message.DataID]bool{}
		for _, g := range ch.StreamChunk.DataPointGroups {
			if id, ok := g.DataIDOrAlias.(*message.DataID); ok {
				full[*id] = true
			}
		}
		listed := map[message.DataID]int{}
		for _, id := range ch.DataIDs {
			listed[*id]++
		}
		for id, cnt := range listed {
			if cnt != 1 || !full[id] {
				return ev.Failf("C01.6 data-id-list", "seq %d lists data id %v %d time(s), full-form present: %v", ch.StreamChunk.SequenceNumber, id, cnt, full[id]).WithHistory(summarize(h))
			}
		}
		for id := range full {
			if listed[id] == 0 {
				return ev.Failf("C01.6 data-id-list", "seq %d carries %v in full form but does not list it", ch.StreamChunk.SequenceNumber, id).WithHistory(summarize(h))
			}
		}
	}
	// clause 3: close request
	if len(closeReqs) != 1 {
		return ev.Failf("C01.3 close-request", "%d close requests received", len(closeReqs)).WithHistory(summarize(h))
	}
	cr := closeReqs[0].Msg.(*message.UpstreamCloseRequest)
	if cr.FinalSequenceNumber != n || cr.TotalDataPoints != uint64(len(accepted)) {
		return ev.Failf("C01.3 close-totals", "close request reports final=%d total=%d, broker received %d chunks with %d points (accepted %d)",
			cr.FinalSequenceNumber, cr.TotalDataPoints, n, len(received), len(accepted)).WithHistory(summarize(h))
	}
	for _, e := range chunks {
		if e.Idx > closeReqs[0].Idx {
			return ev.Failf("C01.3 chunk-after-close", "chunk seq %d reached the broker after the close request", e.Msg.(*message.UpstreamChunk).StreamChunk.SequenceNumber).WithHistory(summarize(h))
		}
	}
	// clause 5: send hook once per seq with the transmitted content
	hookBySeq := map[uint32]int{}
	for _, b := range h.Before {
		hookBySeq[b.SequenceNumber]++
		e := bySeq[b.SequenceNumber]
		if e == nil {
			return ev.Failf("C01.5 send-hook", "send hook announced seq %d which never reached the broker", b.SequenceNumber).WithHistory(summarize(h))
		}
		var pts []sim.Point
		for _, g := range b.DataPointGroups {
			for _, p := range g.DataPoints {
				pts = append(pts, sim.Point{Name: g.DataID.Name, Type: g.DataID.Type, Elapsed: p.ElapsedTime, Payload: p.Payload})
			}
		}
		hk, ek := upk.SortedKeys(pts), upk.SortedKeys(e.Points)
		if fmt.Sprint(hk) != fmt.Sprint(ek) {
			return ev.Failf("C01.5 send-hook-content", "send hook content of seq %d differs from the transmitted chunk: %s", b.SequenceNumber, firstDiff(hk, ek)).WithHistory(summarize(h))
		}
	}
	for s := uint32(1); s <= n; s++ {
		if hookBySeq[s] != 1 {
			return ev.Failf("C01.5 send-hook-count", "send hook called %d times for seq %d", hookBySeq[s], s).WithHistory(summarize(h))
		}
	}
	// clause 4: ack hook
	sentBySeq := map[uint32][]message.ResultCode{}
	for _, r := range h.Sent {
		sentBySeq[r.Seq] = append(sentBySeq[r.Seq], r.Code)
	}
	gotBySeq := map[uint32][]message.ResultCode{}
	for _, a := range h.AfterAtEnd {
		gotBySeq[a.SequenceNumber] = append(gotBySeq[a.SequenceNumber], a.ResultCode)
	}
	for s := uint32(1); s <= n; s++ {
		sent, got := sentBySeq[s], gotBySeq[s]
		if len(sent) == 0 {
			return ev.Failf("harness", "broker script did not acknowledge seq %d", s)
		}
		if len(got) == 0 {
			return ev.Failf("C01.4 ack-hook-lost", "the broker acknowledged seq %d (code %d) but the ack hook was never called for it (%d hook calls for %d results, 200 ms after Close returned)",
				s, sent[0], len(h.AfterAtEnd), len(h.Sent)).WithHistory(summarize(h))
		}
		if len(got) > len(sent) {
			return ev.Failf("C01.4 ack-hook-duplicate", "ack hook called %d times for seq %d, broker sent %d result(s)", len(got), s, len(sent)).WithHistory(summarize(h))
		}
		for _, g := range got {
			if g != sent[0] {
				return ev.Failf("C01.4 ack-hook-code", "ack hook reported code %d for seq %d, broker sent %d", g, s, sent[0]).WithHistory(summarize(h))
			}
		}
	}
	for s := range gotBySeq {
		if s < 1 || s > n {
			return ev.Failf("C01.4 ack-hook-unknown", "ack hook called for seq %d which was never sent", s).WithHistory(summarize(h))
		}
	}
	if h.AfterAtRet < len(h.AfterAtEnd) && h.AfterAtRet < int(n) {
		// "by the time Close returns": hooks delivered late (asynchronously dispatched)
		k.Label("ack-hooks-late")
		if !knownLateHooks {
			return ev.Failf("C01.4 ack-hook-late", "only %d of %d ack hooks had been delivered when Close returned (the rest arrived later)", h.AfterAtRet, len(h.AfterAtEnd)).WithHistory(summarize(h))
		}
		ev.Excluded(1)
	}
	return nil
}

// knownLateHooks: see known_findings.json C01-late-hooks (neutralises exactly the "late, not lost" clause).
var knownLateHooks = true

func firstDiff(a, b []string) string {
	am, bm := map[string]int{}, map[string]int{}
	for _, x := range a {
		am[x]++
	}
	for _, x := range b {
		bm[x]++
	}
	var only []string
	for x, n := range am {
		if bm[x] < n {
			only = append(only, "missing at broker: "+trunc(x))
		}
	}
	for x, n := range bm {
		if am[x] < n {
			only = append(only, "not accepted but at broker: "+trunc(x))
		}
	}
	sort.Strings(only)
	if len(only) > 4 {
		only = only[:4]
	}
	return fmt.Sprint(only)
}

func trunc(s string) string {
	if len(s) > 120 {
		return s[:120] + "..."
	}
	return s
}

func classify(c Case, h *history, k *ev.Case) {
	k.Label("codec=" + c.Codec)
	k.Label("policy=" + c.Policy.Kind)
	k.Label(fmt.Sprintf("qos=%d", c.QoS))
	k.Label("ack=" + c.Ack.Mode)
	k.Label("alias=" + c.Ack.AliasMode)
	k.Label(fmt.Sprintf("writers=%d", len(c.Writers)))
	nch := countChunks(h.Ledger)
	aliasUsed := false
	big, empty, zero := false, false, false
	for _, e := range h.Ledger {
		if ch, ok := e.Msg.(*message.UpstreamChunk); ok && e.In {
			for _, g := range ch.StreamChunk.DataPointGroups {
				if _, ok := g.DataIDOrAlias.(message.DataIDAlias); ok {
					aliasUsed = true
				}
				if len(g.DataPoints) == 0 {
					zero = true
				}
				for _, p := range g.DataPoints {
					if len(p.Payload) >= 65536 {
						big = true
					}
					if len(p.Payload) == 0 {
						empty = true
					}
				}
			}
		}
	}
	if aliasUsed {
		k.Label("alias-substituted")
	}
	if big {
		k.Label("payload>=64KiB")
	}
	if empty {
		k.Label("empty-payload")
	}
	if zero {
		k.Label("zero-point-group")
	}
	if len(c.Ack.Codes) > 0 {
		k.Label("failure-codes")
	}
	flushes := 0
	for _, w := range c.Writers {
		for _, op := range w {
			if op.Kind == "flush" {
				flushes++
			}
		}
	}
	if nch >= 2 && (aliasUsed || len(c.Writers) >= 2 || (flushes > 0 && c.Policy.Kind != "none") || c.Ack.Mode == "batch" || c.Ack.Mode == "reorder") {
		k.NonTrivial(ev.JSON(c))
	}
}

func runCase(c Case, k *ev.Case) *ev.Failure {
	h, abort, f := run(c)
	if f != nil {
		return f
	}
	if abort != "" {
		ev.Aborted(abort)
		return nil
	}
	classify(c, h, k)
	k.Sample(func() any { return map[string]any{"case": c, "history": summarize(h)} })
	return oracle(c, h, k)
}

var sub = ev.Sub[Case]{Name: "upstream", Gen: gen, Run: runCase, Repeats: 50, Q: 250, T: 5000}

func TestProp(t *testing.T) { sub.Check(t) }

// TestKnownLateHooks is the canary of known finding C01-late-hooks: one write, one flush, immediate ack.
func TestKnownLateHooks(t *testing.T) {
	if ev.ShardIndex() != 0 {
		t.Skip("shard 0 only")
	}
	c := Case{Codec: "proto", QoS: 1, Policy: upk.Policy{Kind: "none"}, Ack: upk.AckPlan{Mode: "immediate", AliasMode: "never"},
		Writers: [][]upk.Op{{{Kind: "write", ID: 0, Sizes: []int{8}}, {Kind: "flush"}, {Kind: "write", ID: 1, Sizes: []int{8}}, {Kind: "flush"},
			{Kind: "write", ID: 0, Sizes: []int{8}}, {Kind: "flush"}, {Kind: "write", ID: 1, Sizes: []int{8}}}}}
	defer runtime.GOMAXPROCS(runtime.GOMAXPROCS(4))
	ev.Known(t, "C01-late-hooks", func() *ev.Failure {
		for i := 0; i < 200; i++ {
			h, abort, f := run(c)
			if f != nil || abort != "" {
				continue
			}
			if h.AfterAtRet < len(h.AfterAtEnd) {
				return ev.Failf("C01.4 ack-hook-late", "%d of %d ack hooks delivered when Close returned (attempt %d)", h.AfterAtRet, len(h.AfterAtEnd), i+1)
			}
		}
		return nil
	})
}

func TestReplay(t *testing.T) { ev.ReplayTest(t, sub) }

var _ = bytes.Equal

// TestRegress: minimal shapes of repaired defects (status "fixed" in known_findings.json).
func TestRegress(t *testing.T) {
	if ev.ShardIndex() != 0 {
		t.Skip("shard 0 only")
	}
	defer runtime.GOMAXPROCS(runtime.GOMAXPROCS(4))
	// C01-ack-hook-lost: results reordered so that the last chunk's result arrives first.
	var ops []upk.Op
	for i := 0; i < 12; i++ {
		ops = append(ops, upk.Op{Kind: "write", ID: i % 3, Sizes: []int{8, 8}})
	}
	c := Case{Codec: "proto", QoS: 1, Policy: upk.Policy{Kind: "immediate"}, Ack: upk.AckPlan{Mode: "reorder", K: 4, AliasMode: "first"}, Writers: [][]upk.Op{ops}}
	for i := 0; i < 40; i++ {
		if !sub.One(t, c) {
			return
		}
	}
}
