// Package c06: each request receives its own response; request ids are unique and even.
package c06

import (
	"context"
	"errors"
	"fmt"
	"sync"
	"testing"
	"time"

	"github.com/aptpod/iscp-go/encoding"
	ejson "github.com/aptpod/iscp-go/encoding/json"
	eproto "github.com/aptpod/iscp-go/encoding/protobuf"
	"github.com/aptpod/iscp-go/message"
	"github.com/aptpod/iscp-go/transport"
	"github.com/aptpod/iscp-go/wire"
	"github.com/google/uuid"
	"pgregory.net/rapid"

	"verifharness/ev"
	"verifharness/sim"
)

func TestMain(m *testing.M) { ev.MainExit(m, "C06") }

type Caller struct {
	Kind   string `json:"kind"`   // upopen | downopen | upresume | downresume | upclose | downclose | metadata
	Cancel string `json:"cancel"` // "" | before | waiting | racing
}

type Case struct {
	Codec    string   `json:"codec"`
	Callers  []Caller `json:"callers"`
	Order    []int    `json:"order"`     // answer order: permutation seed (indices mod remaining)
	DelayUs  []int    `json:"delay_us"`  // delay before each answer
	Spurious []uint32 `json:"spurious"`  // responses for ids never issued, sent before the real answers
	DupEvery int      `json:"dup_every"` // every n-th answer is sent twice (0 = never)
	Rounds   int      `json:"rounds"`    // the caller set is issued that many times on the same connection
}

func marker(id uint32) string { return fmt.Sprintf("r%d", id) }

func responseFor(req message.Message) message.Message {
	switch m := req.(type) {
	case *message.UpstreamOpenRequest:
		id := m.GetRequestID()
		return &message.UpstreamOpenResponse{RequestID: m.RequestID, AssignedStreamID: uuid.UUID{0xaa, byte(id >> 8), byte(id)}, AssignedStreamIDAlias: 1000 + id,
			ResultCode: message.ResultCodeSucceeded, ResultString: marker(id), DataIDAliases: map[uint32]*message.DataID{}}
	case *message.DownstreamOpenRequest:
		id := m.GetRequestID()
		return &message.DownstreamOpenResponse{RequestID: m.RequestID, AssignedStreamID: uuid.UUID{0xdd, byte(id >> 8), byte(id)}, ResultCode: message.ResultCodeSucceeded, ResultString: marker(id)}
	case *message.UpstreamResumeRequest:
		id := m.GetRequestID()
		return &message.UpstreamResumeResponse{RequestID: m.RequestID, AssignedStreamIDAlias: 2000 + id, ResultCode: message.ResultCodeSucceeded, ResultString: marker(id)}
	case *message.DownstreamResumeRequest:
		return &message.DownstreamResumeResponse{RequestID: m.RequestID, ResultCode: message.ResultCodeSucceeded, ResultString: marker(m.GetRequestID())}
	case *message.UpstreamCloseRequest:
		return &message.UpstreamCloseResponse{RequestID: m.RequestID, ResultCode: message.ResultCodeSucceeded, ResultString: marker(m.GetRequestID())}
	case *message.DownstreamCloseRequest:
		return &message.DownstreamCloseResponse{RequestID: m.RequestID, ResultCode: message.ResultCodeSucceeded, ResultString: marker(m.GetRequestID())}
	case *message.UpstreamMetadata:
		return &message.UpstreamMetadataAck{RequestID: m.RequestID, ResultCode: message.ResultCodeSucceeded, ResultString: marker(m.GetRequestID())}
	}
	return nil
}

// callerTag extracts the per-caller marker the harness put into the request.
func callerTag(req message.Message) string {
	switch m := req.(type) {
	case *message.UpstreamOpenRequest:
		return m.SessionID
	case *message.DownstreamOpenRequest:
		return fmt.Sprintf("c%d", m.DesiredStreamIDAlias)
	case *message.UpstreamResumeRequest:
		return fmt.Sprintf("c%d", int(m.StreamID[1])<<8|int(m.StreamID[2]))
	case *message.DownstreamResumeRequest:
		return fmt.Sprintf("c%d", m.DesiredStreamIDAlias)
	case *message.UpstreamCloseRequest:
		return fmt.Sprintf("c%d", int(m.StreamID[1])<<8|int(m.StreamID[2]))
	case *message.DownstreamCloseRequest:
		return fmt.Sprintf("c%d", int(m.StreamID[1])<<8|int(m.StreamID[2]))
	case *message.UpstreamMetadata:
		return m.Metadata.(*message.BaseTime).Name
	}
	return ""
}

type outcome struct {
	tag     string
	err     error
	reqID   uint32
	marker  string // ResultString of the response
	extra   uint32 // alias carried by the response (0 if none)
	hung    bool
	panic   any
	respNil bool
}

func run(c Case, k *ev.Case) *ev.Failure {
	encName, enc := transport.EncodingNameProtobuf, encoding.Encoding(eproto.NewEncoding())
	if c.Codec == "json" {
		encName, enc = transport.EncodingNameJSON, ejson.NewEncoding()
	}
	link := sim.NewLink(0, transport.DialConfig{EncodingName: encName})
	b := sim.NewBroker()
	type pend struct {
		inc *sim.Inc
		e   *sim.Entry
	}
	var pmu sync.Mutex
	var pending []pend
	arrived := make(chan struct{}, 1024)
	b.Hook = func(inc *sim.Inc, e *sim.Entry) sim.Verdict {
		switch e.Msg.(type) {
		case *message.ConnectRequest, *message.Ping, *message.Pong:
			return sim.Default
		}
		if responseFor(e.Msg) != nil {
			pmu.Lock()
			pending = append(pending, pend{inc, e})
			pmu.Unlock()
			arrived <- struct{}{}
			return sim.Handled
		}
		return sim.Default
	}
	inc := b.Serve(link)
	defer link.Sever()
	etr := encoding.NewTransport(&encoding.TransportConfig{Transport: link.ClientTransport(), Encoding: enc})
	var conn *wire.ClientConn
	var err error
	if ok, _ := sim.Call(5*time.Second, func() {
		conn, err = wire.Connect(&wire.ClientConnConfig{Transport: etr, PingInterval: 2 * time.Millisecond, PingTimeout: 5 * time.Second, NodeID: "n"})
	}); !ok {
		return ev.Failf("C06.4 caller-hang", "wire.Connect did not return")
	}
	if err != nil {
		return ev.Failf("harness", "connect: %v", err)
	}
	defer conn.Close()

	outOfOrder := false
	maxOutstanding := 0
	for round := 0; round < c.Rounds; round++ {
		n := len(c.Callers)
		outs := make([]outcome, n)
		cancels := make([]context.CancelFunc, n)
		var wg sync.WaitGroup
		for i, cl := range c.Callers {
			ctx, cancel := context.WithTimeout(context.Background(), 8*time.Second)
			cancels[i] = cancel
			if cl.Cancel == "before" {
				cancel()
			}
			tagN := round*100 + i + 1
			tag := fmt.Sprintf("c%d", tagN)
			outs[i].tag = tag
			wg.Add(1)
			go func(i int, cl Caller) {
				defer wg.Done()
				o := &outs[i]
				done := make(chan struct{})
				go func() {
					defer close(done)
					defer func() {
						if p := recover(); p != nil {
							o.panic = p
						}
					}()
					sid := uuid.UUID{0x01, byte(tagN >> 8), byte(tagN)}
					switch cl.Kind {
					case "upopen":
						req := &message.UpstreamOpenRequest{SessionID: tag, QoS: message.QoSReliable}
						r, err := conn.SendUpstreamOpenRequest(ctx, req)
						o.err, o.reqID = err, req.GetRequestID()
						if r != nil {
							o.marker, o.extra = r.ResultString, r.AssignedStreamIDAlias-1000
						} else {
							o.respNil = true
						}
					case "downopen":
						req := &message.DownstreamOpenRequest{DesiredStreamIDAlias: uint32(tagN), QoS: message.QoSReliable}
						r, err := conn.SendDownstreamOpenRequest(ctx, req)
						o.err, o.reqID = err, req.GetRequestID()
						if r != nil {
							o.marker = r.ResultString
						} else {
							o.respNil = true
						}
					case "upresume":
						req := &message.UpstreamResumeRequest{StreamID: sid}
						r, err := conn.SendUpstreamResumeRequest(ctx, req, message.QoSReliable)
						o.err, o.reqID = err, req.GetRequestID()
						if r != nil {
							o.marker, o.extra = r.ResultString, r.AssignedStreamIDAlias-2000
						} else {
							o.respNil = true
						}
					case "downresume":
						req := &message.DownstreamResumeRequest{StreamID: sid, DesiredStreamIDAlias: uint32(tagN)}
						r, err := conn.SendDownstreamResumeRequest(ctx, req)
						o.err, o.reqID = err, req.GetRequestID()
						if r != nil {
							o.marker = r.ResultString
						} else {
							o.respNil = true
						}
					case "upclose":
						req := &message.UpstreamCloseRequest{StreamID: sid}
						r, err := conn.SendUpstreamCloseRequest(ctx, req)
						o.err, o.reqID = err, req.GetRequestID()
						if r != nil {
							o.marker = r.ResultString
						} else {
							o.respNil = true
						}
					case "downclose":
						req := &message.DownstreamCloseRequest{StreamID: sid}
						r, err := conn.SendDownstreamCloseRequest(ctx, req)
						o.err, o.reqID = err, req.GetRequestID()
						if r != nil {
							o.marker = r.ResultString
						} else {
							o.respNil = true
						}
					case "metadata":
						req := &message.UpstreamMetadata{Metadata: &message.BaseTime{Name: tag, BaseTime: time.Unix(1700000000, 0)}}
						r, err := conn.SendUpstreamMetadata(ctx, req)
						o.err, o.reqID = err, req.GetRequestID()
						if r != nil {
							o.marker = r.ResultString
						} else {
							o.respNil = true
						}
					}
				}()
				select {
				case <-done:
				case <-time.After(15 * time.Second):
					o.hung = true
				}
			}(i, cl)
		}
		// the broker waits until every request has arrived (requests are written even when the context is already done)
		deadline := time.After(5 * time.Second)
		for got := 0; got < n; got++ {
			select {
			case <-arrived:
			case <-deadline:
				got = n
			}
		}
		pmu.Lock()
		batch := pending
		pending = nil
		pmu.Unlock()
		if len(batch) > maxOutstanding {
			maxOutstanding = len(batch)
		}
		tagOf := map[uint32]string{}
		for _, p := range batch {
			tagOf[p.e.Msg.(message.Request).GetRequestID()] = callerTag(p.e.Msg)
		}
		// cancellation while waiting
		for i, cl := range c.Callers {
			if cl.Cancel == "waiting" {
				cancels[i]()
			}
		}
		for _, id := range c.Spurious {
			inc.Send(&message.UpstreamOpenResponse{RequestID: message.RequestID(id), ResultCode: message.ResultCodeSucceeded, ResultString: "spurious", DataIDAliases: map[uint32]*message.DataID{}})
			inc.Send(&message.UpstreamMetadataAck{RequestID: message.RequestID(id), ResultCode: message.ResultCodeSucceeded, ResultString: "spurious"})
		}
		// answer in the generated permutation
		rest := append([]pend(nil), batch...)
		for step := 0; len(rest) > 0; step++ {
			pick := 0
			if len(c.Order) > 0 {
				pick = c.Order[step%len(c.Order)] % len(rest)
			}
			if pick != 0 {
				outOfOrder = true
			}
			p := rest[pick]
			rest = append(rest[:pick:pick], rest[pick+1:]...)
			if len(c.DelayUs) > 0 {
				if d := c.DelayUs[step%len(c.DelayUs)]; d > 0 {
					time.Sleep(time.Duration(d) * time.Microsecond)
				}
			}
			for i, cl := range c.Callers {
				if cl.Cancel == "racing" && tagOf[p.e.Msg.(message.Request).GetRequestID()] == outs[i].tag {
					cancels[i]()
				}
			}
			resp := responseFor(p.e.Msg)
			p.inc.Send(resp)
			if c.DupEvery > 0 && step%c.DupEvery == 0 {
				p.inc.Send(resp) // second copy of an answered id
			}
		}
		wg.Wait()
		for _, cf := range cancels {
			cf()
		}
		// judge the round
		for i, o := range outs {
			cl := c.Callers[i]
			if o.hung {
				return ev.Failf("C06.4 caller-hang", "round %d: caller %s (%s, cancel=%q) did not return", round, o.tag, cl.Kind, cl.Cancel)
			}
			if o.panic != nil {
				return ev.Failf("C06.4 caller-panic", "round %d: caller %s (%s) panicked: %v", round, o.tag, cl.Kind, o.panic)
			}
			switch cl.Cancel {
			case "":
				if o.err != nil {
					return ev.Failf("C06.3 bystander-disturbed", "round %d: caller %s (%s, not cancelled) returned %v although the broker answered its request id %d", round, o.tag, cl.Kind, o.err, o.reqID)
				}
			case "before", "waiting":
				// a nil error is legal here: the property demands that a cancelled caller stops waiting and never consumes another caller's
				// response, not that it loses the race against its OWN response (the broker answers a moment after the cancellation; a
				// caller that was not scheduled in between finds both its context done and its response ready). Its response is checked
				// below like everybody's. (An earlier version demanded the context error and raised false alarms under load.)
				if o.err == nil {
					k.Label("cancelled-caller-got-own-response")
				}
				if o.err != nil && !errors.Is(o.err, context.Canceled) && !errors.Is(o.err, context.DeadlineExceeded) {
					return ev.Failf("C06.3 cancelled-caller", "round %d: cancelled caller %s returned %v instead of its context error", round, o.tag, o.err)
				}
			case "racing":
				if o.err != nil && !errors.Is(o.err, context.Canceled) {
					return ev.Failf("C06.3 cancelled-caller", "round %d: caller %s returned %v", round, o.tag, o.err)
				}
			}
			if o.err == nil {
				if o.respNil {
					return ev.Failf("C06.2 own-response", "round %d: caller %s returned nil error and nil response", round, o.tag)
				}
				if o.marker != marker(o.reqID) {
					return ev.Failf("C06.2 own-response", "round %d: caller %s sent request id %d but holds the response marked %q", round, o.tag, o.reqID, o.marker)
				}
				if (cl.Kind == "upopen" || cl.Kind == "upresume") && o.extra != o.reqID {
					return ev.Failf("C06.2 own-response", "round %d: caller %s (id %d) holds a response whose alias belongs to id %d", round, o.tag, o.reqID, o.extra)
				}
				if tagOf[o.reqID] != o.tag {
					return ev.Failf("C06.2 own-response", "round %d: caller %s believes its request id is %d, the broker saw that id from %q", round, o.tag, o.reqID, tagOf[o.reqID])
				}
			}
		}
	}
	// ids at the broker: pairwise distinct and even (connect request and pings included)
	seen := map[uint32]string{}
	pings := 0
	for _, e := range b.Ledger() {
		if !e.In {
			continue
		}
		r, ok := e.Msg.(message.Request)
		if !ok {
			continue
		}
		id := r.GetRequestID()
		if id%2 != 0 {
			return ev.Failf("C06.1 parity", "the client used the odd request id %d (%s)", id, e.Kind)
		}
		if prev, dup := seen[id]; dup {
			return ev.Failf("C06.1 unique", "request id %d used twice on one connection (%s and %s)", id, prev, e.Kind)
		}
		seen[id] = e.Kind
		if e.Kind == "Ping" {
			pings++
		}
	}
	k.LabelN("pings-interleaved", pings)
	k.Label(fmt.Sprintf("outstanding=%d", min(maxOutstanding, 8)))
	if outOfOrder {
		k.Label("answered-out-of-order")
	}
	if maxOutstanding >= 3 && outOfOrder {
		k.NonTrivial(ev.JSON(c))
	}
	k.Sample(func() any { return c })
	return nil
}

func gen(t *rapid.T) Case {
	c := Case{Codec: rapid.SampledFrom([]string{"proto", "json"}).Draw(t, "codec"), Rounds: rapid.IntRange(1, 3).Draw(t, "rounds")}
	n := rapid.SampledFrom([]int{2, 3, 4, 6, 8, 12, 16, 32}).Draw(t, "ncallers")
	for i := 0; i < n; i++ {
		c.Callers = append(c.Callers, Caller{
			Kind:   rapid.SampledFrom([]string{"upopen", "downopen", "upresume", "downresume", "upclose", "downclose", "metadata"}).Draw(t, "kind"),
			Cancel: rapid.SampledFrom([]string{"", "", "", "", "before", "waiting", "racing"}).Draw(t, "cancel"),
		})
	}
	c.Order = rapid.SliceOfN(rapid.IntRange(0, 31), 1, 16).Draw(t, "order")
	c.DelayUs = rapid.SliceOfN(rapid.SampledFrom([]int{0, 0, 0, 20, 200, 1500}), 1, 6).Draw(t, "delays")
	if rapid.Bool().Draw(t, "spurious") {
		c.Spurious = rapid.SliceOfN(rapid.SampledFrom([]uint32{1, 3, 5, 7, 1000001, 0xfffffffe, 0xffffffff, 100000}), 1, 5).Draw(t, "spuriousids")
	}
	c.DupEvery = rapid.SampledFrom([]int{0, 0, 1, 2, 3}).Draw(t, "dup")
	return c
}

var sub = ev.Sub[Case]{Name: "requests", Repeats: 30, Q: 250, T: 8000, Gen: gen, Run: run}

func TestProp(t *testing.T)   { sub.Check(t) }
func TestReplay(t *testing.T) { ev.ReplayTest(t, sub) }
