#!/usr/bin/env python3
"""Markdown table of the seeded changes and how the checks did (from seeded/*/*/meta.json and result.json)."""
import json, glob, os, re
ROOT = os.path.dirname(os.path.dirname(os.path.abspath(__file__)))
rows = []
for d in sorted(glob.glob(os.path.join(ROOT, "seeded", "C*", "m*"))):
    pid, m = d.split("/")[-2:]
    try:
        meta = json.load(open(os.path.join(d, "meta.json")))
    except Exception:
        meta = {}
    try:
        res = json.load(open(os.path.join(d, "result.json")))
    except Exception:
        res = None
    summary = (meta.get("summary") or meta.get("origin") or "").replace("|", "/").replace("\n", " ")
    if len(summary) > 210:
        summary = summary[:207] + "..."
    first = last = "-"
    if res:
        h = res.get("history") or []
        if h:
            first = "caught" if h[0]["caught"] else "MISSED"
            last = "caught" if h[-1]["caught"] else "missed"
            clause = ""
            for r in h[-1]["runs"]:
                for l in r.get("first_lines", []):
                    mm = re.search(r"# [^:]+: (C\d\d\.\d [^:]+|data-race|process-crash)", l)
                    if mm:
                        clause = mm.group(1)
                        break
            if clause:
                last += " (" + clause + ")"
    rows.append((pid, m, summary, first, last))
print("| id | change (one line, from the sub-agent's meta.json) | first pass | now |")
print("|----|------|------|------|")
for r in rows:
    print("| %s/%s | %s | %s | %s |" % r)
