// Package c16: end-to-end calls and replies reach exactly the caller they belong to.
package c16

import (
	"strings"

	"context"
	"errors"
	"fmt"
	ierrors "github.com/aptpod/iscp-go/errors"
	"sync"
	"testing"
	"time"

	"github.com/aptpod/iscp-go/iscp"
	"github.com/aptpod/iscp-go/message"
	"pgregory.net/rapid"

	"verifharness/ev"
	"verifharness/sim"
)

func TestMain(m *testing.M) { ev.MainExit(m, "C16") }

type Caller struct {
	Kind string `json:"kind"` // call | reply | wait
	Nack int    `json:"nack"` // 0 = positive ack, else the failure result code
}

// Event of the broker script, in emission order.
type Event struct {
	Kind   string `json:"kind"` // ack | reply | unknown-ack | unknown-reply | dup-ack | incoming
	Caller int    `json:"caller"`
}

type Case struct {
	Codec   string   `json:"codec"`
	Callers []Caller `json:"callers"`
	Events  []Event  `json:"events"` // must contain one ack per caller and one reply per wait caller (generator guarantees it)
	DelayUs []int    `json:"delay_us"`
	// PollUs > 0: the two inbox consumers poll - every ReceiveCall / ReceiveReplyCall gets its own context that ends after that
	// many microseconds; a context error means "poll again", anything else while the connection is open is wrong (seeded C16/m6)
	PollUs int `json:"poll_us,omitempty"`
	// Abandoned: that many extra SendCall callers give up after 1 ms; their (negative) acks are sent only after the patient callers
	// have started - a late ack for a call nobody waits for must not reach another caller (seeded change C16/m5)
	Abandoned int `json:"abandoned,omitempty"`
}

type outcome struct {
	callID string
	err    error
	reply  *iscp.DownstreamReplyCall
	hung   bool
}

func run(c Case, k *ev.Case) *ev.Failure {
	w := sim.NewWorld()
	defer w.Dispose()
	var mu sync.Mutex
	calls := map[string]*message.UpstreamCall{} // marker -> call
	var abandoned []*message.UpstreamCall        // calls whose callers gave up after 1 ms
	arrived := make(chan struct{}, 256)
	w.Broker.Hook = func(inc *sim.Inc, e *sim.Entry) sim.Verdict {
		if uc, ok := e.Msg.(*message.UpstreamCall); ok {
			if strings.HasPrefix(string(uc.Payload), "ab") {
				mu.Lock()
				abandoned = append(abandoned, uc)
				mu.Unlock()
				return sim.Handled // acknowledged (negatively) much later
			}
			mu.Lock()
			calls[string(uc.Payload)] = uc
			mu.Unlock()
			arrived <- struct{}{}
			return sim.Handled
		}
		return sim.Default
	}
	enc := iscp.EncodingNameProtobuf
	if c.Codec == "json" {
		enc = iscp.EncodingNameJSON
	}
	conn, err := w.Connect(iscp.WithConnEncoding(enc))
	if err != nil {
		return ev.Failf("harness", "connect: %v", err)
	}
	defer sim.Call(5*time.Second, func() { conn.Close(context.Background()) })
	// callers that give up at once, one after the other, before anybody else calls
	for i := 0; i < c.Abandoned; i++ {
		sim.Call(5*time.Second, func() {
			ctx, cancel := sim.Ctx(time.Millisecond)
			defer cancel()
			conn.SendCall(ctx, &iscp.UpstreamCall{DestinationNodeID: "dst", Name: "n", Type: "t", Payload: []byte(fmt.Sprintf("ab%03d", i))})
		})
	}
	n := len(c.Callers)
	outs := make([]outcome, n)
	var wg sync.WaitGroup
	for i, cl := range c.Callers {
		wg.Add(1)
		go func(i int, cl Caller) {
			defer wg.Done()
			o := &outs[i]
			marker := []byte(fmt.Sprintf("p%03d", i))
			ok, _ := sim.Call(15*time.Second, func() {
				ctx, cancel := sim.Ctx(8 * time.Second)
				defer cancel()
				switch cl.Kind {
				case "call":
					o.callID, o.err = conn.SendCall(ctx, &iscp.UpstreamCall{DestinationNodeID: "dst", Name: "n", Type: "t", Payload: marker})
				case "reply":
					o.callID, o.err = conn.SendReplyCall(ctx, &iscp.UpstreamReplyCall{RequestCallID: fmt.Sprintf("incoming-%d", i), DestinationNodeID: "dst", Name: "n", Type: "t", Payload: marker})
				case "wait":
					o.reply, o.err = conn.SendCallAndWaitReplayCall(ctx, &iscp.UpstreamCall{DestinationNodeID: "dst", Name: "n", Type: "t", Payload: marker})
				}
			})
			if !ok {
				o.hung = true
			}
		}(i, cl)
	}
	// receivers
	var rmu sync.Mutex
	var gotCalls []*iscp.DownstreamCall
	var gotReplies []*iscp.DownstreamReplyCall
	pollErr := ""
	rctx, rcancel := context.WithCancel(context.Background())
	var rwg sync.WaitGroup
	rwg.Add(2)
	go func() {
		defer rwg.Done()
		for {
			pctx, pc := rctx, context.CancelFunc(func() {})
			if c.PollUs > 0 {
				pctx, pc = context.WithTimeout(rctx, time.Duration(c.PollUs)*time.Microsecond)
			}
			dc, err := conn.ReceiveCall(pctx)
			pc()
			if err != nil {
				if c.PollUs > 0 && rctx.Err() == nil && (errors.Is(err, context.DeadlineExceeded) || errors.Is(err, context.Canceled)) {
					continue
				}
				if rctx.Err() == nil {
					rmu.Lock()
					pollErr = fmt.Sprintf("ReceiveCall on an open connection returned %v", err)
					rmu.Unlock()
				}
				return
			}
			rmu.Lock()
			gotCalls = append(gotCalls, dc)
			rmu.Unlock()
		}
	}()
	go func() {
		defer rwg.Done()
		for {
			pctx, pc := rctx, context.CancelFunc(func() {})
			if c.PollUs > 0 {
				pctx, pc = context.WithTimeout(rctx, time.Duration(c.PollUs)*time.Microsecond)
			}
			rc, err := conn.ReceiveReplyCall(pctx)
			pc()
			if err != nil {
				if c.PollUs > 0 && rctx.Err() == nil && (errors.Is(err, context.DeadlineExceeded) || errors.Is(err, context.Canceled)) {
					continue
				}
				if rctx.Err() == nil {
					rmu.Lock()
					pollErr = fmt.Sprintf("ReceiveReplyCall on an open connection returned %v", err)
					rmu.Unlock()
				}
				return
			}
			rmu.Lock()
			gotReplies = append(gotReplies, rc)
			rmu.Unlock()
		}
	}()
	defer func() { rcancel(); rwg.Wait() }()
	deadline := time.After(5 * time.Second)
	for got := 0; got < n; got++ {
		select {
		case <-arrived:
		case <-deadline:
			return ev.Failf("C16.1 call-missing", "5 s after %d callers started on a healthy connection only %d of their calls have reached the broker", n, got)
		}
	}
	inc := w.Broker.CurrentInc()
	// the late (negative) acks of the abandoned calls arrive now, while the patient callers wait for theirs
	mu.Lock()
	late := append([]*message.UpstreamCall(nil), abandoned...)
	mu.Unlock()
	for _, uc := range late {
		inc.Send(&message.UpstreamCallAck{CallID: uc.CallID, ResultCode: message.ResultCode(33), ResultString: "late-nack-for-" + string(uc.Payload)})
	}
	if len(late) > 0 {
		k.Label("late-acks-for-abandoned-calls")
		time.Sleep(300 * time.Microsecond)
	}
	mu.Lock()
	byCaller := make([]*message.UpstreamCall, n)
	ids := map[string]int{}
	for i := range c.Callers {
		uc := calls[fmt.Sprintf("p%03d", i)]
		if uc == nil {
			mu.Unlock()
			return ev.Failf("C16.1 call-missing", "the call of caller %d never reached the broker", i)
		}
		byCaller[i] = uc
		if prev, dup := ids[uc.CallID]; dup {
			mu.Unlock()
			return ev.Failf("C16.1 call-id-reuse", "callers %d and %d used the same call id %q", prev, i, uc.CallID)
		}
		ids[uc.CallID] = i
	}
	mu.Unlock()
	var emittedCalls, emittedReplies []*message.DownstreamCall
	replyBeforeAck := false
	acked := map[int]bool{}
	for ei, e := range c.Events {
		if len(c.DelayUs) > 0 {
			if d := c.DelayUs[ei%len(c.DelayUs)]; d > 0 {
				time.Sleep(time.Duration(d) * time.Microsecond)
			}
		}
		i := e.Caller % n
		uc := byCaller[i]
		switch e.Kind {
		case "ack", "dup-ack":
			rc := message.ResultCodeSucceeded
			if c.Callers[i].Nack != 0 {
				rc = message.ResultCode(c.Callers[i].Nack)
			}
			if e.Kind == "dup-ack" && !acked[i] {
				continue // a duplicate can only follow the original
			}
			acked[i] = true
			inc.Send(&message.UpstreamCallAck{CallID: uc.CallID, ResultCode: rc, ResultString: fmt.Sprintf("ack-for-%s", uc.Payload)})
		case "reply":
			if c.Callers[i].Kind != "wait" {
				continue
			}
			if !acked[i] {
				replyBeforeAck = true
			}
			dc := &message.DownstreamCall{CallID: fmt.Sprintf("reply-%d", i), RequestCallID: uc.CallID, SourceNodeID: "dst", Name: "rn", Type: "rt", Payload: []byte("reply-to-" + string(uc.Payload))}
			emittedReplies = append(emittedReplies, dc)
			inc.Send(dc)
		case "unknown-ack":
			inc.Send(&message.UpstreamCallAck{CallID: fmt.Sprintf("no-such-call-%d", ei), ResultCode: message.ResultCodeSucceeded, ResultString: "unknown"})
		case "unknown-reply":
			dc := &message.DownstreamCall{CallID: fmt.Sprintf("stray-%d", ei), RequestCallID: fmt.Sprintf("no-such-call-%d", ei), SourceNodeID: "x", Name: "s", Type: "s", Payload: []byte("stray")}
			emittedReplies = append(emittedReplies, dc)
			inc.Send(dc)
		case "incoming":
			dc := &message.DownstreamCall{CallID: fmt.Sprintf("incoming-%d", ei), SourceNodeID: "peer", Name: "in", Type: "in", Payload: []byte(fmt.Sprintf("incoming-payload-%d", ei))}
			emittedCalls = append(emittedCalls, dc)
			inc.Send(dc)
		}
	}
	wg.Wait()
	for i, o := range outs {
		cl := c.Callers[i]
		uc := byCaller[i]
		if o.hung {
			return ev.Failf("C16.5 hang", "caller %d (%s) did not return although its ack%s was sent", i, cl.Kind, map[bool]string{true: " and reply", false: ""}[cl.Kind == "wait"])
		}
		if cl.Nack != 0 {
			if o.err == nil {
				return ev.Failf("C16.2 negative-ack", "caller %d (%s): the broker acked its call id with code %d but the call returned nil", i, cl.Kind, cl.Nack)
			}
			if errors.Is(o.err, context.DeadlineExceeded) {
				return ev.Failf("C16.2 negative-ack", "caller %d (%s): negative ack was sent but the call ran into its deadline", i, cl.Kind)
			}
			continue
		}
		if o.err != nil {
			return ev.Failf("C16.2 ack-correlation", "caller %d (%s): the broker acked call id %s positively but the caller got %v", i, cl.Kind, uc.CallID, o.err)
		}
		switch cl.Kind {
		case "call", "reply":
			if o.callID != uc.CallID {
				return ev.Failf("C16.2 call-id", "caller %d returned call id %q, the broker saw %q for its payload", i, o.callID, uc.CallID)
			}
			if cl.Kind == "reply" && uc.RequestCallID != fmt.Sprintf("incoming-%d", i) {
				return ev.Failf("C16.2 reply-fields", "reply call of caller %d carries RequestCallID %q", i, uc.RequestCallID)
			}
		case "wait":
			if o.reply == nil {
				return ev.Failf("C16.3 reply-correlation", "caller %d returned neither error nor reply", i)
			}
			if o.reply.RequestCallID != uc.CallID || string(o.reply.Payload) != "reply-to-"+string(uc.Payload) || o.reply.CallID != fmt.Sprintf("reply-%d", i) {
				return ev.Failf("C16.3 reply-correlation", "caller %d (call id %s, payload %s) got the reply {call %s, request-call %s, payload %q}", i, uc.CallID, uc.Payload, o.reply.CallID, o.reply.RequestCallID, o.reply.Payload)
			}
		}
	}
	// inbox: arrival order, once each, unmodified
	dl := time.Now().Add(3 * time.Second)
	for time.Now().Before(dl) {
		rmu.Lock()
		done := len(gotCalls) >= len(emittedCalls) && len(gotReplies) >= len(emittedReplies)
		rmu.Unlock()
		if done {
			break
		}
		time.Sleep(200 * time.Microsecond)
	}
	rmu.Lock()
	defer rmu.Unlock()
	if pollErr != "" {
		return ev.Failf("C16.4 inbox-error", "%s", pollErr)
	}
	if len(gotCalls) != len(emittedCalls) {
		return ev.Failf("C16.4 inbox-calls", "the broker sent %d calls, ReceiveCall returned %d", len(emittedCalls), len(gotCalls))
	}
	for i, g := range gotCalls {
		e := emittedCalls[i]
		if g.CallID != e.CallID || g.SourceNodeID != e.SourceNodeID || g.Name != e.Name || g.Type != e.Type || string(g.Payload) != string(e.Payload) {
			return ev.Failf("C16.4 inbox-calls", "ReceiveCall result %d is %+v, the broker sent %+v at that position", i, *g, *e)
		}
	}
	if len(gotReplies) != len(emittedReplies) {
		return ev.Failf("C16.4 inbox-replies", "the broker sent %d reply calls, ReceiveReplyCall returned %d", len(emittedReplies), len(gotReplies))
	}
	for i, g := range gotReplies {
		e := emittedReplies[i]
		if g.CallID != e.CallID || g.RequestCallID != e.RequestCallID || g.SourceNodeID != e.SourceNodeID || string(g.Payload) != string(e.Payload) {
			return ev.Failf("C16.4 inbox-replies", "ReceiveReplyCall result %d is %+v, the broker sent %+v at that position", i, *g, *e)
		}
	}
	if replyBeforeAck {
		k.Label("reply-before-ack")
	}
	k.Label(fmt.Sprintf("callers=%d", min(n, 8)))
	if n >= 3 {
		k.NonTrivial(ev.JSON(c))
	}
	k.Sample(func() any { return c })
	return nil
}

func gen(t *rapid.T) Case {
	c := Case{Codec: rapid.SampledFrom([]string{"proto", "json"}).Draw(t, "codec")}
	n := rapid.SampledFrom([]int{1, 2, 3, 4, 6, 8, 12, 16}).Draw(t, "ncallers")
	var evs []Event
	for i := 0; i < n; i++ {
		cl := Caller{Kind: rapid.SampledFrom([]string{"call", "reply", "wait", "wait"}).Draw(t, "kind")}
		if rapid.IntRange(0, 4).Draw(t, "nack") == 0 {
			cl.Nack = rapid.SampledFrom([]int{6, 9, 11, 19, 33}).Draw(t, "code")
		}
		c.Callers = append(c.Callers, cl)
		evs = append(evs, Event{Kind: "ack", Caller: i})
		if cl.Kind == "wait" {
			evs = append(evs, Event{Kind: "reply", Caller: i})
		}
	}
	nx := rapid.IntRange(0, 6).Draw(t, "nextra")
	for i := 0; i < nx; i++ {
		evs = append(evs, Event{Kind: rapid.SampledFrom([]string{"unknown-ack", "unknown-reply", "dup-ack", "incoming", "incoming"}).Draw(t, "extra"), Caller: rapid.IntRange(0, n-1).Draw(t, "xc")})
	}
	c.Events = rapid.Permutation(evs).Draw(t, "order")
	c.DelayUs = rapid.SliceOfN(rapid.SampledFrom([]int{0, 0, 0, 30, 300}), 1, 5).Draw(t, "delays")
	c.PollUs = rapid.SampledFrom([]int{0, 0, 1, 40, 400}).Draw(t, "poll")
	c.Abandoned = rapid.SampledFrom([]int{0, 0, 1, 3}).Draw(t, "abandoned")
	return c
}

var sub = ev.Sub[Case]{Name: "calls", Repeats: 30, Q: 250, T: 6000, Gen: gen, Run: run}

func TestProp(t *testing.T)   { sub.Check(t) }
func TestReplay(t *testing.T) { ev.ReplayTest(t, sub, subVolume, subCloseMid) }

// ---------------------------------------------------------------------------------------------
// volume: long histories on one connection. The routing tables and inboxes of the call machinery are bounded (1024 entries);
// a call must reach its caller whatever has piled up before it (seeded change C16/m2: once the reply inbox nobody drains was
// full, replies were no longer handed to their waiting callers).

type VolumeCase struct {
	Calls  int  `json:"calls"`  // sequential SendCallAndWaitReplayCall calls
	Drain  bool `json:"drain"`  // a ReceiveReplyCall / ReceiveCall consumer is running
	Flood  int  `json:"flood"`  // incoming calls and stray replies sent by the broker before the calls start
	Strays int  `json:"strays"` // every Strays-th call is preceded by a stray ack and a stray reply (0 = never)
}

func runVolume(c VolumeCase, k *ev.Case) *ev.Failure {
	w := sim.NewWorld()
	defer w.Dispose()
	w.Broker.Hook = func(inc *sim.Inc, e *sim.Entry) sim.Verdict {
		if uc, ok := e.Msg.(*message.UpstreamCall); ok {
			inc.Send(&message.UpstreamCallAck{CallID: uc.CallID, ResultCode: message.ResultCodeSucceeded, ResultString: "ack-for-" + string(uc.Payload)})
			inc.Send(&message.DownstreamCall{CallID: "reply-" + uc.CallID, RequestCallID: uc.CallID, SourceNodeID: "dst", Name: "rn", Type: "rt", Payload: []byte("reply-to-" + string(uc.Payload))})
			return sim.Handled
		}
		return sim.Default
	}
	conn, err := w.Connect()
	if err != nil {
		return ev.Failf("harness", "connect: %v", err)
	}
	defer sim.Call(5*time.Second, func() { conn.Close(context.Background()) })
	rctx, rcancel := context.WithCancel(context.Background())
	var rwg sync.WaitGroup
	if c.Drain {
		rwg.Add(2)
		go func() {
			defer rwg.Done()
			for {
				if _, err := conn.ReceiveCall(rctx); err != nil {
					return
				}
			}
		}()
		go func() {
			defer rwg.Done()
			for {
				if _, err := conn.ReceiveReplyCall(rctx); err != nil {
					return
				}
			}
		}()
	}
	defer func() { rcancel(); rwg.Wait() }()
	inc := w.Broker.CurrentInc()
	for i := 0; i < c.Flood; i++ {
		inc.Send(&message.DownstreamCall{CallID: fmt.Sprintf("in-%d", i), SourceNodeID: "peer", Name: "in", Type: "in", Payload: []byte("incoming")})
		inc.Send(&message.DownstreamCall{CallID: fmt.Sprintf("stray-%d", i), RequestCallID: fmt.Sprintf("nobody-%d", i), SourceNodeID: "x", Name: "s", Type: "s", Payload: []byte("stray")})
	}
	for i := 0; i < c.Calls; i++ {
		if c.Strays > 0 && i%c.Strays == 0 {
			inc.Send(&message.UpstreamCallAck{CallID: fmt.Sprintf("no-call-%d", i), ResultCode: message.ResultCodeSucceeded, ResultString: "stray"})
			inc.Send(&message.DownstreamCall{CallID: fmt.Sprintf("stray2-%d", i), RequestCallID: fmt.Sprintf("no-call-%d", i), SourceNodeID: "x", Name: "s", Type: "s", Payload: []byte("stray")})
		}
		marker := fmt.Sprintf("v%05d", i)
		var rep *iscp.DownstreamReplyCall
		var cerr error
		ok, _ := sim.Call(10*time.Second, func() {
			ctx, cancel := sim.Ctx(3 * time.Second)
			defer cancel()
			rep, cerr = conn.SendCallAndWaitReplayCall(ctx, &iscp.UpstreamCall{DestinationNodeID: "dst", Name: "n", Type: "t", Payload: []byte(marker)})
		})
		if !ok {
			return ev.Failf("C16.3 caller-hang", "call %d of %d (no consumer draining the inboxes: %v) did not return", i+1, c.Calls, !c.Drain)
		}
		if cerr != nil {
			return ev.Failf("C16.2 reply-not-delivered", "call %d of %d: the broker acknowledged and replied, the caller got %v (inbox consumers running: %v, flood %d)", i+1, c.Calls, cerr, c.Drain, c.Flood)
		}
		if rep == nil || string(rep.Payload) != "reply-to-"+marker {
			return ev.Failf("C16.2 wrong-reply", "call %d of %d returned the reply %+v, want the one for %s", i+1, c.Calls, rep, marker)
		}
	}
	k.Label(fmt.Sprintf("volume/drain=%v", c.Drain))
	if c.Calls > 1024 || c.Flood > 1024 {
		k.NonTrivial(ev.JSON(c))
	}
	k.Sample(func() any { return c })
	return nil
}

var subVolume = ev.Sub[VolumeCase]{Name: "volume", Q: 3, T: 40,
	Gen: func(t *rapid.T) VolumeCase {
		return VolumeCase{Calls: rapid.SampledFrom([]int{300, 1030, 1100, 2100}).Draw(t, "calls"), Drain: rapid.Bool().Draw(t, "drain"),
			Flood: rapid.SampledFrom([]int{0, 0, 1100, 2100}).Draw(t, "flood"), Strays: rapid.SampledFrom([]int{0, 1, 7}).Draw(t, "strays")}
	}, Run: runVolume}

func TestVolume(t *testing.T) {
	subVolume.Check(t)
	if ev.ShardIndex() == 0 { // the boundary case itself, always
		subVolume.One(t, VolumeCase{Calls: 1040, Drain: false})
		subVolume.One(t, VolumeCase{Calls: 40, Drain: false, Flood: 1100, Strays: 1})
	}
}

// ---------------------------------------------------------------------------------------------
// Conn.Close while calls are outstanding in each of their phases: not yet acknowledged, acknowledged and waiting for the reply,
// plain SendCall. Every caller returns promptly with the connection-closed error (seeded change C16/m4: a caller that had its ack
// and waited for its reply was not woken by Close).

type CloseMidCase struct {
	Acked    int  `json:"acked"`    // call-and-wait callers whose call is acknowledged, reply withheld
	Unacked  int  `json:"unacked"`  // call-and-wait callers whose call is not even acknowledged
	Plain    int  `json:"plain"`    // SendCall callers, not acknowledged
	Deadline bool `json:"deadline"` // callers use a 5 s deadline instead of context.Background()
}

func runCloseMid(c CloseMidCase, k *ev.Case) *ev.Failure {
	w := sim.NewWorld()
	defer w.Dispose()
	var mu sync.Mutex
	ackedSeen := 0
	w.Broker.Hook = func(inc *sim.Inc, e *sim.Entry) sim.Verdict {
		if uc, ok := e.Msg.(*message.UpstreamCall); ok {
			if strings.HasPrefix(string(uc.Payload), "acked") {
				inc.Send(&message.UpstreamCallAck{CallID: uc.CallID, ResultCode: message.ResultCodeSucceeded, ResultString: "ok"})
				mu.Lock()
				ackedSeen++
				mu.Unlock()
			}
			return sim.Handled
		}
		return sim.Default
	}
	conn, err := w.Connect()
	if err != nil {
		return ev.Failf("harness", "connect: %v", err)
	}
	type out struct {
		kind string
		err  error
		done bool
	}
	total := c.Acked + c.Unacked + c.Plain
	outs := make([]out, total)
	var wg sync.WaitGroup
	start := func(i int, kind string) {
		outs[i].kind = kind
		wg.Add(1)
		go func() {
			defer wg.Done()
			ctx := context.Background()
			if c.Deadline {
				var cancel context.CancelFunc
				ctx, cancel = sim.Ctx(5 * time.Second)
				defer cancel()
			}
			payload := []byte(fmt.Sprintf("%s-%d", kind, i))
			if kind == "plain" {
				_, outs[i].err = conn.SendCall(ctx, &iscp.UpstreamCall{DestinationNodeID: "dst", Name: "n", Type: "t", Payload: payload})
			} else {
				_, outs[i].err = conn.SendCallAndWaitReplayCall(ctx, &iscp.UpstreamCall{DestinationNodeID: "dst", Name: "n", Type: "t", Payload: payload})
			}
			outs[i].done = true
		}()
	}
	i := 0
	for j := 0; j < c.Acked; j++ {
		start(i, "acked")
		i++
	}
	for j := 0; j < c.Unacked; j++ {
		start(i, "unacked")
		i++
	}
	for j := 0; j < c.Plain; j++ {
		start(i, "plain")
		i++
	}
	// the acknowledged callers have their ack (and now wait for a reply that never comes)
	for dl := time.Now().Add(2 * time.Second); time.Now().Before(dl); time.Sleep(200 * time.Microsecond) {
		mu.Lock()
		n := ackedSeen
		mu.Unlock()
		if n >= c.Acked {
			break
		}
	}
	time.Sleep(3 * time.Millisecond)
	if ok, _ := sim.Call(5*time.Second, func() {
		ctx, cancel := sim.Ctx(2 * time.Second)
		defer cancel()
		conn.Close(ctx)
	}); !ok {
		return ev.Failf("C16.3 close-hang", "Conn.Close did not return with %d calls outstanding", total)
	}
	finished := make(chan struct{})
	go func() { wg.Wait(); close(finished) }()
	select {
	case <-finished:
	case <-time.After(2 * time.Second):
		var stuck []string
		for i := range outs {
			if !outs[i].done {
				stuck = append(stuck, fmt.Sprintf("%s-%d", outs[i].kind, i))
			}
		}
		return ev.Failf("C16.3 caller-survives-close", "2 s after Conn.Close returned these callers are still blocked: %v", stuck)
	}
	for i := range outs {
		if outs[i].err == nil || !errors.Is(outs[i].err, ierrors.ErrConnectionClosed) {
			return ev.Failf("C16.3 wrong-error-at-close", "caller %s-%d (outstanding when the connection was closed) returned %v, want the connection-closed error", outs[i].kind, i, outs[i].err)
		}
	}
	k.NonTrivial(ev.JSON(c))
	k.Sample(func() any { return c })
	return nil
}

var subCloseMid = ev.Sub[CloseMidCase]{Name: "close-mid-call", Q: 10, T: 200,
	Gen: func(t *rapid.T) CloseMidCase {
		return CloseMidCase{Acked: rapid.IntRange(0, 3).Draw(t, "acked"), Unacked: rapid.IntRange(0, 3).Draw(t, "unacked"), Plain: rapid.IntRange(0, 2).Draw(t, "plain"), Deadline: rapid.Bool().Draw(t, "deadline")}
	}, Run: runCloseMid}

func TestCloseMid(t *testing.T) { subCloseMid.Check(t) }
