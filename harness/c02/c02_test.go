// Package c02: a reliable upstream loses no data across disconnect and resume.
package c02

import (
	"context"
	"errors"
	"fmt"
	"sync"
	"testing"
	"time"

	ierrors "github.com/aptpod/iscp-go/errors"
	"github.com/aptpod/iscp-go/iscp"
	"github.com/aptpod/iscp-go/message"
	"pgregory.net/rapid"

	"verifharness/ev"
	"verifharness/sim"
	"verifharness/upk"
)

func TestMain(m *testing.M) { ev.MainExit(m, "C02") }

// Cut is one transport failure, positioned relative to the message stream.
type Cut struct {
	// Phase: before-ack (the n-th chunk of the current connection arrives, is not acknowledged, link dies) |
	// after-ack (its ack is sent and delivered, then the link dies) | on-resume-request | after-resume-response |
	// redial-handshake (the next ConnectRequest is cut) | idle (the link dies now, nothing in flight)
	Phase string `json:"phase"`
	N     int    `json:"n"` // chunk ordinal on that connection (1-based), for before-ack / after-ack
	// Withhold: ordinals (1-based, per connection) of chunks received before the cut that are NOT acknowledged
	Withhold []int `json:"withhold"`
	// AfterMs (idle cuts): the link dies only that long after the writers started - unacknowledged chunks have then been waiting
	// for their acks for a long time (seeded change C02/m3: a default ack timeout of 1 s silently dropped them from the storage)
	AfterMs int `json:"after_ms,omitempty"`
}

type Case struct {
	Codec     string      `json:"codec"`
	Policy    upk.Policy  `json:"policy"`
	Writers   [][]upk.Op  `json:"writers"`
	Ack       upk.AckPlan `json:"ack"`
	Cuts      []Cut       `json:"cuts"`
	Conflicts int         `json:"conflicts"` // RESUME_REQUEST_CONFLICT answers before the resume succeeds (first resume only)
	Refuse    bool        `json:"refuse"`    // the last resume is refused (stream must be reported closed)
	Redial    string      `json:"redial"`
	Storage   string      `json:"storage"` // default | payload
	// Neighbour: "" | "unreliable" | "partial": a second upstream of that QoS on the same connection (shared sent storage),
	// writing a few points around the main stream's traffic and resumed with it at every reconnect
	Neighbour string `json:"neighbour,omitempty"`
	// AckTimeoutMs > 0: the stream is opened with that ack timeout (far longer than the case: it never expires here; the end of
	// a connection must not be mistaken for it - seeded change C02/m5)
	AckTimeoutMs int `json:"ack_timeout_ms,omitempty"`
}

const neighbourSession = "session-c02-neighbour"

// ackTimeoutOption: an explicit ack timeout, or no option at all (the library default must stay in force - an explicit 0 would
// mask a changed default, as it did for seeded change C02/m3 for a while)
func ackTimeoutOption(ms int) iscp.UpstreamOption {
	if ms <= 0 {
		return func(*iscp.UpstreamConfig) {}
	}
	return iscp.WithUpstreamAckTimeout(time.Duration(ms) * time.Millisecond)
}

const perCall = 8 * time.Second

type history struct {
	Accepted  []upk.Accepted
	WriteErrs []string
	Closed    bool // the stream was reported closed to the application
	CloseErr  string
	Before    []iscp.UpstreamChunk
	Ledger    []*sim.Entry
	UpID      [16]byte
	FiredCuts int
	Resumed   int
	// FinalInc: the connection that is alive at the end (-1: none); ResumedOnFinal: the stream completed a resume exchange on it
	FinalInc       int
	ResumedOnFinal bool
	ProbeWrite     string // outcome of a write+flush issued at the very end, before Close ("" = both returned nil)
	SentAcks  []upk.SentResult // results the broker sent for the main stream's chunks
	DeadInc   map[int]bool     // connections that died
}

func run(c Case) (*history, string, *ev.Failure) {
	w := sim.NewWorld()
	defer w.Dispose()
	if c.Redial != "instant" {
		w.DialDelay = 5 * time.Millisecond
	}
	b := w.Broker
	script := upk.NewAckScript(b, c.Ack)
	b.OpenAliases = script.OpenAliases
	var mu sync.Mutex
	cutIdx := 0
	chunkOrd := map[int]int{} // per incarnation chunk ordinal
	fired := 0
	conflicts := c.Conflicts
	curCut := func() *Cut {
		if cutIdx < len(c.Cuts) {
			return &c.Cuts[cutIdx]
		}
		return nil
	}
	withheld := func(ord int) bool {
		cc := curCut()
		if cc == nil {
			return false
		}
		for _, x := range cc.Withhold {
			if x == ord {
				return true
			}
		}
		return false
	}
	type heldChunk struct {
		inc *sim.Inc
		up  *sim.UpState
		e   *sim.Entry
	}
	var held []heldChunk
	b.OnChunk = func(inc *sim.Inc, up *sim.UpState, e *sim.Entry) {
		if up != nil && up.Session == neighbourSession {
			// acknowledged at once, outside the main stream's ack script (its batching must not see foreign chunks)
			m := e.Msg.(*message.UpstreamChunk)
			inc.Send(&message.UpstreamChunkAck{StreamIDAlias: m.StreamIDAlias, Results: []*message.UpstreamChunkResult{{
				SequenceNumber: m.StreamChunk.SequenceNumber, ResultCode: message.ResultCodeSucceeded, ResultString: "OK"}},
				DataIDAliases: map[uint32]*message.DataID{}})
			return
		}
		mu.Lock()
		ord := chunkOrd[inc.Index]
		skip := withheld(ord)
		mu.Unlock()
		if skip {
			mu.Lock()
			held = append(held, heldChunk{inc, up, e})
			mu.Unlock()
			return
		}
		script.OnChunk(inc, up, e)
	}
	b.UpResumeResult = func(inc *sim.Inc, up *sim.UpState, attempt int) message.ResultCode {
		if up != nil && up.Session == neighbourSession {
			return message.ResultCodeSucceeded
		}
		mu.Lock()
		defer mu.Unlock()
		if conflicts > 0 {
			conflicts--
			return message.ResultCodeResumeRequestConflict
		}
		if c.Refuse && cutIdx >= len(c.Cuts) {
			return message.ResultCodeStreamNotFound
		}
		return message.ResultCodeSucceeded
	}
	b.Hook = func(inc *sim.Inc, e *sim.Entry) sim.Verdict {
		mu.Lock()
		defer mu.Unlock()
		cc := curCut()
		if _, ok := e.Msg.(*message.UpstreamChunk); ok {
			if e.Up != nil && e.Up.Session == neighbourSession {
				return sim.Default // positions are counted on the main stream
			}
			chunkOrd[inc.Index]++
			if cc != nil && (cc.Phase == "before-ack" || cc.Phase == "after-ack") && chunkOrd[inc.Index] == cc.N {
				cutIdx++
				fired++
				if cc.Phase == "before-ack" {
					// the chunk was received (it is in the ledger) but never acknowledged
					return sim.SeverBefore
				}
				// ack it for real (it must not be in the withhold set of the cut that just fired)
				return sim.SeverAfter
			}
			return sim.Default
		}
		if cc == nil {
			return sim.Default
		}
		switch e.Msg.(type) {
		case *message.ConnectRequest:
			if cc.Phase == "redial-handshake" && inc.Index > 0 {
				cutIdx++
				fired++
				return sim.SeverBefore
			}
		case *message.UpstreamResumeRequest:
			if cc.Phase == "on-resume-request" {
				cutIdx++
				fired++
				return sim.SeverBefore
			}
			if cc.Phase == "after-resume-response" {
				cutIdx++
				fired++
				return sim.SeverAfter
			}
		}
		return sim.Default
	}
	enc := iscp.EncodingNameProtobuf
	if c.Codec == "json" {
		enc = iscp.EncodingNameJSON
	}
	opts := []iscp.ConnOption{iscp.WithConnEncoding(enc), iscp.WithConnPingInterval(15 * time.Millisecond), iscp.WithConnPingTimeout(1500 * time.Millisecond)}
	if c.Storage == "payload" {
		opts = append(opts, iscp.VerifWithConnSentStorage(iscp.VerifNewInmemSentStorage()))
	}
	conn, err := w.Connect(opts...)
	if err != nil {
		return nil, "", ev.Failf("harness", "connect: %v", err)
	}
	defer sim.Call(perCall, func() { conn.Close(context.Background()) })
	rec := &upk.HookRec{}
	var up *iscp.Upstream
	ok, _ := sim.Call(perCall, func() {
		ctx, cancel := sim.Ctx(perCall)
		defer cancel()
		up, err = conn.OpenUpstream(ctx, "session-c02", iscp.WithUpstreamQoS(message.QoSReliable), c.Policy.Option(),
			iscp.WithUpstreamSendDataPointsHooker(rec), iscp.WithUpstreamReceiveAckHooker(rec), iscp.WithUpstreamClosedEventHandler(rec),
			iscp.WithUpstreamResumedEventHandler(rec), iscp.WithUpstreamCloseTimeout(2*time.Second), ackTimeoutOption(c.AckTimeoutMs))
	})
	if !ok {
		return nil, "OpenUpstream", nil
	}
	if err != nil {
		return nil, "", ev.Failf("harness", "open: %v", err)
	}
	h := &history{UpID: up.ID}
	stopNb := make(chan struct{})
	var nbwg sync.WaitGroup
	if c.Neighbour != "" {
		qos := message.QoSUnreliable
		if c.Neighbour == "partial" {
			qos = message.QoSPartial
		}
		var nb *iscp.Upstream
		sim.Call(perCall, func() {
			ctx, cancel := sim.Ctx(perCall)
			defer cancel()
			nb, _ = conn.OpenUpstream(ctx, neighbourSession, iscp.WithUpstreamQoS(qos), iscp.WithUpstreamFlushPolicyImmediately(), iscp.WithUpstreamCloseTimeout(300*time.Millisecond))
		})
		if nb != nil {
			nbwg.Add(1)
			go func() {
				defer nbwg.Done()
				defer sim.Call(perCall, func() {
					ctx, cancel := sim.Ctx(time.Second)
					defer cancel()
					nb.Close(ctx)
				})
				for i := 0; ; i++ {
					select {
					case <-stopNb:
						return
					case <-time.After(4 * time.Millisecond):
					}
					ctx, cancel := sim.Ctx(200 * time.Millisecond)
					nb.WriteDataPoints(ctx, &message.DataID{Name: "nb", Type: "t"}, &message.DataPoint{ElapsedTime: time.Duration(i), Payload: []byte("neighbour")})
					cancel()
				}
			}()
		}
	}
	var stopNbOnce sync.Once
	stopNeighbour := func() { stopNbOnce.Do(func() { close(stopNb); nbwg.Wait() }) }
	defer stopNeighbour()
	// idle cuts fire from the harness side while writers run
	stopIdle := make(chan struct{})
	idleT0 := time.Now()
	var iwg sync.WaitGroup
	iwg.Add(1)
	go func() {
		defer iwg.Done()
		for {
			select {
			case <-stopIdle:
				return
			case <-time.After(3 * time.Millisecond):
			}
			mu.Lock()
			cc := curCut()
			idle := cc != nil && (cc.Phase == "idle" || cc.Phase == "half-open") && time.Since(idleT0) >= time.Duration(cc.AfterMs)*time.Millisecond
			halfOpen := idle && cc.Phase == "half-open"
			if idle {
				cutIdx++
				fired++
			}
			mu.Unlock()
			if idle {
				if l := w.CurrentLink(); l != nil {
					if halfOpen {
						// the outgoing path dies first: writes fail, reads keep blocking; the client notices through a failed write
						// (the busy writer below provides one) and redials; the old link is cut for good a little later
						l.BreakWrites()
						go func() { time.Sleep(30 * time.Millisecond); l.Sever() }()
					} else {
						l.DrainThenSever(20 * time.Millisecond)
					}
				}
				time.Sleep(40 * time.Millisecond)
			}
		}
	}()
	results := make([]upk.WriterResult, len(c.Writers))
	var wg sync.WaitGroup
	for i := range c.Writers {
		wg.Add(1)
		go func(i int) {
			defer wg.Done()
			ctr := 0
			results[i] = upk.RunWriter(up, i, c.Writers[i], perCall, &ctr)
		}(i)
	}
	wg.Wait()
	for _, r := range results {
		if r.Hung != "" {
			close(stopIdle)
			iwg.Wait()
			return nil, r.Hung, nil
		}
		h.Accepted = append(h.Accepted, r.Accepted...)
		h.WriteErrs = append(h.WriteErrs, r.Errors...)
	}
	// The writer programs usually finish before the client even notices the first failure. Keep the stream busy (an extra
	// writer, recorded like the others) until every planned failure had its chance: resume-phase and handshake cuts fire as
	// the reconnect proceeds, chunk-positioned ones need fresh chunks on the new connection.
	extraCtr := 0
	planDeadline := time.Now().Add(2500 * time.Millisecond)
	for time.Now().Before(planDeadline) {
		mu.Lock()
		done := cutIdx >= len(c.Cuts)
		mu.Unlock()
		if done || len(rec.ClosedEvents()) > 0 {
			break
		}
		r := upk.RunWriter(up, 9, []upk.Op{{Kind: "write", ID: 1, Sizes: []int{10, 3}}, {Kind: "flush"}}, 500*time.Millisecond, &extraCtr)
		h.Accepted = append(h.Accepted, r.Accepted...)
		for _, e := range r.Errors {
			if containsStreamClosed(e) {
				h.WriteErrs = append(h.WriteErrs, e)
			}
		}
		time.Sleep(3 * time.Millisecond)
	}
	sim.Call(perCall, func() {
		ctx, cancel := sim.Ctx(2 * time.Second)
		defer cancel()
		if err := up.Flush(ctx); err != nil && errors.Is(err, ierrors.ErrStreamClosed) {
			h.Closed = true // "writes failing with the stream-closed error": the stream has been reported closed
		}
	})
	time.Sleep(2 * time.Millisecond)
	mu.Lock()
	cutIdx = len(c.Cuts)
	late := held
	held = nil
	mu.Unlock()
	close(stopIdle)
	iwg.Wait()
	// the planned failures are over: "the connection is back and the broker acknowledges" - also what it withheld on
	// a connection that turned out to survive
	for _, hc := range late {
		if !hc.inc.Link.Dead() {
			script.OnChunk(hc.inc, hc.up, hc.e)
		}
	}
	stopNeighbour() // its traffic would keep the broker from ever looking quiet
	// "eventually": the connection is back and the broker acknowledges: wait for quiescence
	deadline := time.Now().Add(6*time.Second + time.Duration(c.Conflicts)*time.Second)
	for time.Now().Before(deadline) {
		before, _, _ := rec.Snapshot()
		st := b.Upstream(up.ID)
		allIn := st != nil
		if st != nil {
			b.Lock()
			cur := b.CurrentInc
			_ = cur
			for _, bc := range before {
				got := false
				for _, e := range st.Chunks[bc.SequenceNumber] {
					if !w.Links()[e.Inc].Dead() {
						got = true // received on the live connection
					}
				}
				if !got && len(st.Chunks[bc.SequenceNumber]) == 0 {
					allIn = false
				}
			}
			b.Unlock()
		}
		closed := len(rec.ClosedEvents()) > 0
		if closed {
			break
		}
		if allIn && b.Quiesce(30*time.Millisecond, 200*time.Millisecond) {
			// everything announced has been seen at least once; have the unacknowledged ones been retransmitted?
			if unackedPending(b, w, up.ID, script) == 0 {
				break
			}
		}
		time.Sleep(5 * time.Millisecond)
	}
	sim.Call(perCall, func() {
		ctx, cancel := sim.Ctx(300 * time.Millisecond)
		defer cancel()
		if err := up.Flush(ctx); err != nil && errors.Is(err, ierrors.ErrStreamClosed) {
			h.Closed = true
		}
	})
	// a last write+flush before Close: on a stream that is neither resumed nor closed it neither succeeds nor fails with the
	// stream-closed error - it runs into its deadline (seeded change C02/m6)
	sim.Call(perCall, func() {
		ctx, cancel := sim.Ctx(1500 * time.Millisecond)
		defer cancel()
		ctr := 900000
		r := upk.RunWriter(up, 8, []upk.Op{{Kind: "write", ID: 2, Sizes: []int{5}}, {Kind: "flush"}}, 1500*time.Millisecond, &ctr)
		_ = ctx
		h.Accepted = append(h.Accepted, r.Accepted...)
		for _, e := range r.Errors {
			if containsStreamClosed(e) {
				h.Closed = true
			} else {
				h.ProbeWrite = e
			}
		}
		if r.Hung != "" {
			h.ProbeWrite = "hung: " + r.Hung
		}
	})
	var cerr error
	ok, _ = sim.Call(perCall, func() {
		ctx, cancel := sim.Ctx(3 * time.Second)
		defer cancel()
		cerr = up.Close(ctx)
	})
	if !ok {
		return nil, "Upstream.Close", nil
	}
	if cerr != nil {
		h.CloseErr = cerr.Error()
	}
	time.Sleep(2 * time.Millisecond)
	for _, e := range rec.ClosedEvents() {
		if e.Err != nil {
			h.Closed = true
		}
	}
	for _, we := range h.WriteErrs {
		if containsStreamClosed(we) {
			h.Closed = true
		}
	}
	h.Before, _, _ = rec.Snapshot()
	h.Ledger = withoutNeighbour(b.Ledger())
	h.SentAcks = script.Results()
	h.DeadInc = map[int]bool{}
	for _, l := range w.Links() {
		if l.Dead() {
			h.DeadInc[l.Index] = true
		}
	}
	h.Resumed = rec.ResumedCount()
	h.FinalInc = -1
	if inc := b.CurrentInc(); inc != nil && inc.Connect != nil && !inc.Link.Dead() {
		h.FinalInc = inc.Index
		if inc.Index == 0 {
			h.ResumedOnFinal = true
		}
		for _, e := range h.Ledger {
			if m, ok := e.Msg.(*message.UpstreamResumeResponse); ok && !e.In && e.Inc == inc.Index && m.ResultCode == message.ResultCodeSucceeded {
				h.ResumedOnFinal = true
			}
		}
	}
	mu.Lock()
	h.FiredCuts = fired
	mu.Unlock()
	return h, "", nil
}

func containsStreamClosed(s string) bool {
	return len(s) > 0 && (errors.Is(ierrors.ErrStreamClosed, ierrors.ErrStreamClosed) && (stringsContains(s, "closed iscp stream")))
}

func stringsContains(s, sub string) bool {
	for i := 0; i+len(sub) <= len(s); i++ {
		if s[i:i+len(sub)] == sub {
			return true
		}
	}
	return false
}

// unackedPending counts sequence numbers for which the broker has not yet sent a result on a connection that is alive.
func unackedPending(b *sim.Broker, w *sim.World, id [16]byte, script *upk.AckScript) int {
	st := b.Upstream(id)
	if st == nil {
		return 0
	}
	// a result sent on a link that died may have been lost, but then the client retransmits (ledger activity, so the
	// caller's quiescence test keeps waiting) and the broker acknowledges again: "some result was sent" is enough here
	acked := map[uint32]bool{}
	for _, r := range script.Results() {
		acked[r.Seq] = true
	}
	n := 0
	b.Lock()
	for seq := range st.Chunks {
		if !acked[seq] {
			n++
		}
	}
	b.Unlock()
	return n
}

func summarize(h *history) any {
	var led []string
	for _, e := range h.Ledger {
		if e.Kind == "Ping" || e.Kind == "Pong" {
			continue
		}
		d := "->"
		if e.In {
			d = "<-"
		}
		s := fmt.Sprintf("%dus inc%d %s %s", e.T, e.Inc, d, e.Kind)
		switch m := e.Msg.(type) {
		case *message.UpstreamChunk:
			pl := 0
			for _, p := range e.Points {
				pl += len(p.Payload)
			}
			s += fmt.Sprintf(" alias=%d seq=%d points=%d payload-bytes=%d %s", m.StreamIDAlias, m.StreamChunk.SequenceNumber, len(e.Points), pl, e.ResolveErr)
		case *message.UpstreamChunkAck:
			for _, r := range m.Results {
				s += fmt.Sprintf(" ack(%d)", r.SequenceNumber)
			}
		case *message.UpstreamResumeRequest:
			s += fmt.Sprintf(" stream=%x", m.StreamID[12:])
		case *message.UpstreamResumeResponse:
			s += fmt.Sprintf(" code=%d alias=%d", m.ResultCode, m.AssignedStreamIDAlias)
		case *message.UpstreamCloseRequest:
			s += fmt.Sprintf(" final=%d total=%d", m.FinalSequenceNumber, m.TotalDataPoints)
		}
		led = append(led, s)
	}
	if len(led) > 300 {
		led = append(led[:150], led[len(led)-150:]...)
	}
	return map[string]any{"ledger": led, "write_errors": h.WriteErrs, "close_error": h.CloseErr, "closed_reported": h.Closed, "hook_chunks": len(h.Before), "resumed_events": h.Resumed}
}

// withoutNeighbour removes the neighbour stream's own exchange from the ledger: the oracle judges the main stream.
func withoutNeighbour(led []*sim.Entry) []*sim.Entry {
	reqs := map[message.RequestID]bool{}
	var nbID [16]byte
	haveID := false
	alias := map[int]uint32{} // neighbour's stream alias per connection
	var out []*sim.Entry
	for _, e := range led {
		drop := false
		switch m := e.Msg.(type) {
		case *message.UpstreamOpenRequest:
			if m.SessionID == neighbourSession {
				reqs[m.RequestID] = true
				drop = true
			}
		case *message.UpstreamOpenResponse:
			if reqs[m.RequestID] {
				nbID, haveID = m.AssignedStreamID, true
				alias[e.Inc] = m.AssignedStreamIDAlias
				drop = true
			}
		case *message.UpstreamResumeRequest:
			if haveID && m.StreamID == nbID {
				reqs[m.RequestID] = true
				drop = true
			}
		case *message.UpstreamResumeResponse:
			if reqs[m.RequestID] {
				alias[e.Inc] = m.AssignedStreamIDAlias
				drop = true
			}
		case *message.UpstreamChunk:
			if e.Up != nil && e.Up.Session == neighbourSession {
				drop = true
			}
		case *message.UpstreamChunkAck:
			if a, ok := alias[e.Inc]; ok && a == m.StreamIDAlias {
				drop = true
			}
		case *message.UpstreamCloseRequest:
			if haveID && m.StreamID == nbID {
				reqs[m.RequestID] = true
				drop = true
			}
		case *message.UpstreamCloseResponse:
			if reqs[m.RequestID] {
				drop = true
			}
		}
		if !drop {
			out = append(out, e)
		}
	}
	return out
}

func pointsOfHook(bc iscp.UpstreamChunk) []sim.Point {
	var pts []sim.Point
	for _, g := range bc.DataPointGroups {
		for _, p := range g.DataPoints {
			pts = append(pts, sim.Point{Name: g.DataID.Name, Type: g.DataID.Type, Elapsed: p.ElapsedTime, Payload: p.Payload})
		}
	}
	return pts
}

func oracle(c Case, h *history, k *ev.Case) *ev.Failure {
	fail := func(clause, format string, a ...any) *ev.Failure {
		return ev.Failf(clause, format, a...).WithHistory(summarize(h))
	}
	type recv struct {
		e   *sim.Entry
		inc int
	}
	bySeq := map[uint32][]*sim.Entry{}
	var resumeReqs []*sim.Entry
	var closeReq *message.UpstreamCloseRequest
	aliasOnInc := map[int]uint32{}
	for _, e := range h.Ledger {
		switch m := e.Msg.(type) {
		case *message.UpstreamChunk:
			if !e.In {
				continue
			}
			if e.ResolveErr != "" {
				if closeReq != nil {
					// a (duplicate) retransmission that left after the close request: the broker has forgotten the stream and cannot
					// resolve the alias any more. The statement neither forbids duplicates nor speaks about this order (C01 does, on
					// a connection that stays up); seen once in 37 000 thorough cases, reported as a violation by an earlier version.
					k.Label("retransmission-after-close-request")
					continue
				}
				return fail("C02.1 alias-resolution", "%s", e.ResolveErr)
			}
			bySeq[m.StreamChunk.SequenceNumber] = append(bySeq[m.StreamChunk.SequenceNumber], e)
		case *message.UpstreamResumeRequest:
			resumeReqs = append(resumeReqs, e)
			if m.StreamID != h.UpID {
				return fail("C02.4 resume-id", "the stream asks to resume under id %v, it was assigned %v", m.StreamID, h.UpID)
			}
		case *message.UpstreamResumeResponse:
			if m.ResultCode == message.ResultCodeSucceeded {
				aliasOnInc[e.Inc] = m.AssignedStreamIDAlias
			}
		case *message.UpstreamOpenResponse:
			aliasOnInc[e.Inc] = m.AssignedStreamIDAlias
		case *message.UpstreamCloseRequest:
			closeReq = m
		}
	}
	// clause 2: a sequence number is never reused for different content (checked for every reception, closed stream or not)
	for seq, es := range bySeq {
		base := upk.SortedKeys(es[0].Points)
		for _, e := range es[1:] {
			other := upk.SortedKeys(e.Points)
			if fmt.Sprint(base) != fmt.Sprint(other) {
				if onlyPayloadsStripped(es[0].Points, e.Points) && knownStrippedPayloads(c) {
					ev.Excluded(1)
					continue
				}
				return fail("C02.2 sequence-reuse", "sequence number %d was received on connection %d and again on connection %d with different content (%d vs %d points, payload bytes %d vs %d)", seq, es[0].Inc, e.Inc, len(es[0].Points), len(e.Points), payloadBytes(es[0].Points), payloadBytes(e.Points))
			}
		}
		for _, e := range es {
			if a, ok := aliasOnInc[e.Inc]; ok && e.Msg.(*message.UpstreamChunk).StreamIDAlias != a {
				return fail("C02.4 alias", "seq %d arrived on connection %d under stream alias %d, the alias assigned on that connection is %d", seq, e.Inc, e.Msg.(*message.UpstreamChunk).StreamIDAlias, a)
			}
		}
	}
	if h.Closed {
		k.Label("stream-reported-closed")
		return nil // no further obligation once the stream has been reported closed
	}
	// clause 8: never in limbo - with the connection back, the stream has either resumed on it or been reported closed, and an
	// ordinary write then either works or fails with the stream-closed error
	if h.ProbeWrite != "" && h.FinalInc >= 0 {
		return fail("C02.8 neither-resumed-nor-closed", "with the connection back, a write+flush on the stream neither succeeded nor failed with the stream-closed error: %s", h.ProbeWrite)
	}
	if h.CloseErr != "" {
		k.Label("close-error")
		return nil
	}
	// clause 1: every hook-announced chunk was received at least once with equal content, payloads included
	hookSeq := map[uint32]bool{}
	var maxSeq uint32
	inHook := map[string]int{}
	for _, bc := range h.Before {
		hookSeq[bc.SequenceNumber] = true
		if bc.SequenceNumber > maxSeq {
			maxSeq = bc.SequenceNumber
		}
		want := pointsOfHook(bc)
		for _, p := range want {
			inHook[upk.PointKey(p)]++
		}
		es := bySeq[bc.SequenceNumber]
		if len(es) == 0 {
			return fail("C02.1 chunk-lost", "chunk seq %d (%d points) was cut and announced to the send hook but never reached the broker on any connection, although the stream was not reported closed", bc.SequenceNumber, len(want))
		}
		wk := upk.SortedKeys(want)
		matched := false
		stripped := false
		for _, e := range es {
			if fmt.Sprint(upk.SortedKeys(e.Points)) == fmt.Sprint(wk) {
				matched = true
			} else if onlyPayloadsStripped(want, e.Points) {
				stripped = true
			}
		}
		if !matched {
			if stripped && knownStrippedPayloads(c) {
				ev.Excluded(1)
				k.Label("known-stripped-payloads")
				continue
			}
			e := es[len(es)-1]
			return fail("C02.1 content", "chunk seq %d: announced with %d points / %d payload bytes, received (connection %d) with %d points / %d payload bytes%s", bc.SequenceNumber, len(want), payloadBytes(want), e.Inc, len(e.Points), payloadBytes(e.Points),
				map[bool]string{true: " - same points, payloads emptied", false: ""}[stripped])
		}
	}
	// clause 6: "chunks not acknowledged before a disconnect are retransmitted after the stream is resumed": a chunk whose only
	// receptions are on connections that died, and for which the broker never sent a result on any connection, must arrive again
	// once the stream has resumed on a later connection that stayed up (the case ends with such a connection and a quiescence wait).
	ackSent := map[uint32]bool{}
	for _, r := range h.SentAcks {
		ackSent[r.Seq] = true
	}
	lastResume := -1
	for _, e := range h.Ledger {
		if m, ok := e.Msg.(*message.UpstreamResumeResponse); ok && !e.In && m.ResultCode == message.ResultCodeSucceeded && !h.DeadInc[e.Inc] && e.Inc > lastResume {
			lastResume = e.Inc
		}
	}
	if lastResume >= 0 {
		for seq, es := range bySeq {
			if ackSent[seq] {
				continue
			}
			onLive := false
			for _, e := range es {
				if !h.DeadInc[e.Inc] {
					onLive = true
				}
			}
			if !onLive {
				return fail("C02.6 not-retransmitted", "chunk seq %d reached the broker only on connection(s) that died, the broker never acknowledged it, the stream resumed on connection %d - and the chunk was not sent again", seq, lastResume)
			}
		}
	}
	// clause 3: every accepted point is inside some announced chunk
	for _, a := range h.Accepted {
		for _, p := range a.Points {
			if inHook[upk.PointKey(p)] == 0 {
				return fail("C02.3 point-lost", "a point accepted by WriteDataPoints (writer %d, elapsed %v, %d payload bytes) is in no chunk that was cut", a.Writer, p.Elapsed, len(p.Payload))
			}
			inHook[upk.PointKey(p)]--
		}
	}
	// clause 4: every chunk not acknowledged when a link died arrives again later, after a resume request
	// (covered by clause 1 for content; here: it must have been received on a connection where an ack for it was sent, i.e.
	// the final state has no announced chunk whose only receptions are on dead connections without ack)
	// clause 5: totals
	if closeReq == nil {
		return fail("C02.5 close-request", "Close returned nil but no close request reached the broker")
	}
	total := 0
	for _, a := range h.Accepted {
		total += len(a.Points)
	}
	if closeReq.FinalSequenceNumber != maxSeq || closeReq.TotalDataPoints != uint64(total) {
		return fail("C02.5 close-totals", "close request reports final=%d total=%d; highest announced sequence number %d, accepted points %d", closeReq.FinalSequenceNumber, closeReq.TotalDataPoints, maxSeq, total)
	}
	return nil
}

func payloadBytes(ps []sim.Point) int {
	n := 0
	for _, p := range ps {
		n += len(p.Payload)
	}
	return n
}

// onlyPayloadsStripped: same points (data id, elapsed time) but b's payloads are all empty while a's are not.
func onlyPayloadsStripped(a, b []sim.Point) bool {
	if len(a) != len(b) || payloadBytes(b) != 0 || payloadBytes(a) == 0 {
		return false
	}
	key := func(p sim.Point) string { return fmt.Sprintf("%s|%s|%d", p.Name, p.Type, p.Elapsed) }
	m := map[string]int{}
	for _, p := range a {
		m[key(p)]++
	}
	for _, p := range b {
		m[key(p)]--
	}
	for _, v := range m {
		if v != 0 {
			return false
		}
	}
	return true
}

// knownStrippedPayloads: see known_findings.json (no-op unless a finding is listed for it).
func knownStrippedPayloads(c Case) bool { return false }

func runCase(c Case, k *ev.Case) *ev.Failure {
	h, abort, f := run(c)
	if f != nil {
		return f
	}
	if abort != "" {
		ev.Aborted(abort)
		return nil
	}
	k.Label("redial=" + c.Redial)
	k.Label("storage=" + c.Storage)
	k.Label(fmt.Sprintf("cuts-fired=%d", h.FiredCuts))
	for i, cc := range c.Cuts {
		if i < h.FiredCuts {
			k.Label("cut=" + cc.Phase)
		}
	}
	nt := false
	if h.FiredCuts >= 2 {
		nt = true
	}
	for i, cc := range c.Cuts {
		if i >= h.FiredCuts {
			break
		}
		if cc.Phase == "before-ack" || len(cc.Withhold) > 0 || cc.Phase == "on-resume-request" || cc.Phase == "after-resume-response" {
			nt = true
		}
	}
	if nt {
		k.NonTrivial(ev.JSON(c))
	}
	k.AddPlanned(len(c.Cuts), h.FiredCuts)
	k.Sample(func() any { return map[string]any{"case": c, "history": summarize(h)} })
	return oracle(c, h, k)
}

func gen(t *rapid.T) Case {
	pol := upk.GenPolicy(t)
	if rapid.IntRange(0, 9).Draw(t, "busy-policy") < 6 { // most cases cut chunks often, so that chunk-positioned failures fire
		pol = rapid.SampledFrom([]upk.Policy{{Kind: "immediate"}, {Kind: "size", Size: 1}, {Kind: "size", Size: 12}, {Kind: "interval_or_size", IntervalMs: 2, Size: 8}}).Draw(t, "policy2")
	}
	c := Case{Codec: rapid.SampledFrom([]string{"proto", "json"}).Draw(t, "codec"), Policy: pol, Ack: upk.GenAckPlan(t),
		Redial: rapid.SampledFrom([]string{"paced", "paced", "instant"}).Draw(t, "redial"), Storage: rapid.SampledFrom([]string{"default", "default", "payload"}).Draw(t, "storage")}
	c.Ack.Codes = nil
	nw := rapid.IntRange(1, 3).Draw(t, "nwriters")
	for i := 0; i < nw; i++ {
		c.Writers = append(c.Writers, upk.GenProgram(t, 20, 4, false))
	}
	nc := rapid.SampledFrom([]int{1, 1, 1, 2, 3}).Draw(t, "ncuts")
	for i := 0; i < nc; i++ {
		cut := Cut{Phase: rapid.SampledFrom([]string{"before-ack", "before-ack", "after-ack", "after-ack", "idle", "half-open", "half-open", "on-resume-request", "after-resume-response", "redial-handshake"}).Draw(t, "phase")}
		if i == 0 && (cut.Phase == "on-resume-request" || cut.Phase == "after-resume-response" || cut.Phase == "redial-handshake") {
			cut.Phase = "before-ack" // the first failure has to hit the first connection
		}
		cut.N = rapid.SampledFrom([]int{1, 1, 2, 2, 3, 4, 6}).Draw(t, "n")
		nwh := rapid.IntRange(0, 3).Draw(t, "nwithhold")
		for j := 0; j < nwh; j++ {
			cut.Withhold = append(cut.Withhold, rapid.IntRange(1, cut.N).Draw(t, "wh"))
		}
		c.Cuts = append(c.Cuts, cut)
	}
	if rapid.IntRange(0, 5).Draw(t, "conflict") == 0 {
		c.Conflicts = rapid.IntRange(1, 2).Draw(t, "conflicts")
	}
	c.Refuse = rapid.IntRange(0, 9).Draw(t, "refuse") == 0
	c.Neighbour = rapid.SampledFrom([]string{"", "", "unreliable", "partial"}).Draw(t, "neighbour")
	if rapid.IntRange(0, 2).Draw(t, "acktimeout") == 0 {
		c.AckTimeoutMs = rapid.SampledFrom([]int{60000, 600000}).Draw(t, "acktimeoutms")
	}
	if rapid.IntRange(0, 24).Draw(t, "slowack") == 0 { // rare: each such case takes 1.3 s longer
		c.Cuts = []Cut{{Phase: "idle", N: 1, Withhold: []int{1, 2, 3}, AfterMs: 1300}}
	}
	return c
}

var sub = ev.Sub[Case]{Name: "resume", Repeats: 10, Q: 30, T: 900, Gen: gen, Run: runCase}

func TestProp(t *testing.T)   { sub.Check(t) }
func TestReplay(t *testing.T) { ev.ReplayTest(t, sub, subCloseOutage) }

// TestRegress: repaired defects (known_findings.json, status fixed).
func TestRegress(t *testing.T) {
	if ev.ShardIndex() != 0 {
		t.Skip("shard 0")
	}
	var ops []upk.Op
	for i := 0; i < 14; i++ {
		ops = append(ops, upk.Op{Kind: "write", ID: i % 3, Sizes: []int{9, 30}})
	}
	// C02-stripped-payloads: default storage, a chunk received but not acknowledged when the link dies
	sub.One(t, Case{Codec: "proto", Policy: upk.Policy{Kind: "immediate"}, Writers: [][]upk.Op{ops}, Ack: upk.AckPlan{Mode: "immediate", AliasMode: "first"},
		Cuts: []Cut{{Phase: "before-ack", N: 3, Withhold: []int{1, 2}}}, Redial: "paced", Storage: "default"})
	// C02-outage-discards-unacked: many chunks in flight at the cut
	for i := 0; i < 8; i++ {
		sub.One(t, Case{Codec: "json", Policy: upk.Policy{Kind: "size", Size: 1}, Writers: [][]upk.Op{ops, ops}, Ack: upk.AckPlan{Mode: "immediate", AliasMode: "first"},
			Cuts: []Cut{{Phase: "before-ack", N: 1}}, Redial: "paced", Storage: "default"})
	}
	// seeded change C02/m3: chunks that wait longer than a second for their acks before the link dies
	sub.One(t, Case{Codec: "proto", Policy: upk.Policy{Kind: "immediate"}, Writers: [][]upk.Op{ops[:4]}, Ack: upk.AckPlan{Mode: "immediate", AliasMode: "first"},
		Cuts: []Cut{{Phase: "idle", N: 1, Withhold: []int{1, 2, 3}, AfterMs: 1300}}, Redial: "paced", Storage: "default"})
}

// ---------------------------------------------------------------------------------------------
// the transport dies while Close is waiting for acknowledgements ("whatever the moments at which the transport dies"): the stream
// resumes, retransmits what was not acknowledged, and Close completes with the right totals - or the stream is reported closed with
// an error (seeded change C02/m4: a stream that was draining when the link died was never resumed; nothing was retransmitted,
// Close failed, no closed event)

type CloseOutageCase struct {
	Chunks   int    `json:"chunks"`    // chunks written (one flush each), none acknowledged on the first connection
	WaitUs   int    `json:"wait_us"`   // between starting Close and cutting the link
	Redial   string `json:"redial"`    // paced | instant
	Codec    string `json:"codec"`
	AckFirst int    `json:"ack_first"` // this many of the chunks ARE acknowledged on the first connection
}

func runCloseOutage(c CloseOutageCase, k *ev.Case) *ev.Failure {
	w := sim.NewWorld()
	defer w.Dispose()
	if c.Redial != "instant" {
		w.DialDelay = 5 * time.Millisecond
	}
	b := w.Broker
	b.OnChunk = func(inc *sim.Inc, up *sim.UpState, e *sim.Entry) {
		m := e.Msg.(*message.UpstreamChunk)
		if inc.Index == 0 && int(m.StreamChunk.SequenceNumber) > c.AckFirst {
			return // never acknowledged on the first connection
		}
		inc.Send(&message.UpstreamChunkAck{StreamIDAlias: m.StreamIDAlias, Results: []*message.UpstreamChunkResult{{SequenceNumber: m.StreamChunk.SequenceNumber,
			ResultCode: message.ResultCodeSucceeded, ResultString: "OK"}}, DataIDAliases: map[uint32]*message.DataID{}})
	}
	enc := iscp.EncodingNameProtobuf
	if c.Codec == "json" {
		enc = iscp.EncodingNameJSON
	}
	conn, err := w.Connect(iscp.WithConnEncoding(enc), iscp.WithConnPingInterval(15*time.Millisecond), iscp.WithConnPingTimeout(1500*time.Millisecond))
	if err != nil {
		return ev.Failf("harness", "connect: %v", err)
	}
	defer sim.Call(perCall, func() { conn.Close(context.Background()) })
	rec := &upk.HookRec{}
	ctx, cancel := sim.Ctx(perCall)
	defer cancel()
	up, err := conn.OpenUpstream(ctx, "session-c02-close", iscp.WithUpstreamQoS(message.QoSReliable), iscp.WithUpstreamFlushPolicyNone(), iscp.WithUpstreamClosedEventHandler(rec),
		iscp.WithUpstreamResumedEventHandler(rec), iscp.WithUpstreamSendDataPointsHooker(rec), iscp.WithUpstreamCloseTimeout(4*time.Second))
	if err != nil {
		return ev.Failf("harness", "open: %v", err)
	}
	for i := 1; i <= c.Chunks; i++ {
		if err := up.WriteDataPoints(ctx, upk.DataID(1), &message.DataPoint{ElapsedTime: upk.Elapsed(0, i), Payload: upk.Payload(0, i, 9)}); err != nil {
			return ev.Failf("harness", "write: %v", err)
		}
		if err := up.Flush(ctx); err != nil {
			return ev.Failf("harness", "flush: %v", err)
		}
	}
	var cerr error
	done := make(chan bool, 1)
	go func() {
		ok, _ := sim.Call(perCall+2*time.Second, func() {
			cctx, cc := sim.Ctx(perCall)
			defer cc()
			cerr = up.Close(cctx)
		})
		done <- ok
	}()
	time.Sleep(time.Duration(c.WaitUs) * time.Microsecond)
	w.CurrentLink().DrainThenSever(20 * time.Millisecond)
	if ok := <-done; !ok {
		ev.Aborted("Upstream.Close")
		return nil // a blocked Close is C08's business
	}
	time.Sleep(3 * time.Millisecond)
	reported := false
	for _, e := range rec.ClosedEvents() {
		if e.Err != nil {
			reported = true
		}
	}
	st := b.Upstream(up.ID)
	hist := func() any {
		var led []string
		for _, e := range b.Ledger() {
			if e.Kind == "Ping" || e.Kind == "Pong" {
				continue
			}
			d := "->"
			if e.In {
				d = "<-"
			}
			led = append(led, fmt.Sprintf("%dus inc%d %s %s", e.T, e.Inc, d, e.Kind))
		}
		return map[string]any{"ledger": led, "close_error": fmt.Sprint(cerr), "closed_event_with_error": reported}
	}
	k.Label("close-across-outage")
	k.NonTrivial(ev.JSON(c))
	k.Sample(func() any { return c })
	if reported {
		k.Label("stream-reported-closed")
		return nil
	}
	if cerr != nil {
		return ev.Failf("C02.7 close-across-outage", "the link died while Close waited for %d acknowledgement(s); the connection was back at once, yet Close returned %q and no closed event carrying an error was raised", c.Chunks-c.AckFirst, cerr.Error()).WithHistory(hist())
	}
	// Close returned nil: every chunk not acknowledged before the cut arrived again on a later connection, and the close request is exact
	for seq := c.AckFirst + 1; seq <= c.Chunks; seq++ {
		again := false
		for _, e := range st.Chunks[uint32(seq)] {
			if e.Inc > 0 {
				again = true
			}
		}
		if !again {
			return ev.Failf("C02.6 not-retransmitted", "chunk seq %d was unacknowledged when the link died during Close; Close returned nil but the chunk was not sent again", seq).WithHistory(hist())
		}
	}
	if st.CloseReq == nil || int(st.CloseReq.TotalDataPoints) != c.Chunks || int(st.CloseReq.FinalSequenceNumber) != c.Chunks {
		return ev.Failf("C02.5 close-totals", "close request %+v, written %d points in %d chunks", st.CloseReq, c.Chunks, c.Chunks).WithHistory(hist())
	}
	return nil
}

var subCloseOutage = ev.Sub[CloseOutageCase]{Name: "close-across-outage", Repeats: 10, Q: 12, T: 300,
	Gen: func(t *rapid.T) CloseOutageCase {
		c := CloseOutageCase{Chunks: rapid.IntRange(1, 5).Draw(t, "chunks"), WaitUs: rapid.SampledFrom([]int{0, 100, 1000, 5000, 20000}).Draw(t, "wait"),
			Redial: rapid.SampledFrom([]string{"paced", "paced", "instant"}).Draw(t, "redial"), Codec: rapid.SampledFrom([]string{"proto", "json"}).Draw(t, "codec")}
		c.AckFirst = rapid.IntRange(0, c.Chunks-1).Draw(t, "ackfirst")
		return c
	}, Run: runCloseOutage}

func TestCloseOutage(t *testing.T) { subCloseOutage.Check(t) }
