// Package c04: a downstream acks every consumed chunk once and announces aliases consistently.
package c04

import (
	"fmt"
	"sort"
	"testing"

	"github.com/aptpod/iscp-go/message"
	"github.com/google/uuid"
	"pgregory.net/rapid"

	"verifharness/dnk"
	"verifharness/ev"
	"verifharness/sim"
)

func TestMain(m *testing.M) { ev.MainExit(m, "C04") }

func summarize(h *dnk.History) any {
	var led []string
	for _, e := range h.Ledger {
		switch m := e.Msg.(type) {
		case *message.DownstreamChunkAck:
			var ups, ids []string
			for a, i := range m.UpstreamAliases {
				ups = append(ups, fmt.Sprintf("%d=%s", a, i.SessionID))
			}
			for a, i := range m.DataIDAliases {
				ids = append(ids, fmt.Sprintf("%d=%s", a, i.Name))
			}
			sort.Strings(ups)
			sort.Strings(ids)
			led = append(led, fmt.Sprintf("%dus <- ChunkAck id=%d results=%d upAliases=%v idAliases=%v", e.T, m.AckID, len(m.Results), ups, ids))
		case *message.DownstreamCloseRequest:
			led = append(led, fmt.Sprintf("%dus <- DownstreamCloseRequest", e.T))
		case *message.DownstreamChunk:
			form := "full"
			if _, ok := m.UpstreamOrAlias.(message.UpstreamAlias); ok {
				form = "alias"
			}
			led = append(led, fmt.Sprintf("%dus -> Chunk seq=%d up=%s", e.T, m.StreamChunk.SequenceNumber, form))
		}
	}
	if len(led) > 300 {
		led = append(led[:150], led[len(led)-150:]...)
	}
	return map[string]any{"ledger": led, "read": len(h.Read), "read_at_close": h.CloseCalledAfterReads, "close_error": fmt.Sprint(h.CloseErr)}
}

type key struct {
	id  uuid.UUID
	seq uint32
}

func run(c dnk.Case, k *ev.Case) *ev.Failure {
	w := sim.NewWorld()
	defer w.Dispose()
	h, err := dnk.Run(c, w)
	if err != nil {
		return ev.Failf("harness", "%v", err)
	}
	if h.Abort != "" {
		ev.Aborted(h.Abort)
		return nil
	}
	fail := func(clause, format string, a ...any) *ev.Failure {
		return ev.Failf(clause, format, a...).WithHistory(summarize(h))
	}
	var acks []*sim.Entry
	closeIdx := -1
	for _, e := range h.Ledger {
		if !e.In {
			continue
		}
		switch e.Msg.(type) {
		case *message.DownstreamChunkAck:
			acks = append(acks, e)
		case *message.DownstreamCloseRequest:
			if closeIdx >= 0 {
				return fail("C04.4 close", "two DownstreamCloseRequests")
			}
			closeIdx = e.Idx
		}
	}
	if h.CloseErr != nil {
		// the statement speaks about a Close that works (a failing Close on a healthy link is C08/C10 material) - except for the
		// order on the wire, which holds however Close ends: nothing of the stream follows its close request
		for _, e := range acks {
			if closeIdx >= 0 && e.Idx > closeIdx {
				return fail("C04.4 ack-after-close", "DownstreamChunkAck %d reached the broker after the DownstreamCloseRequest (Close returned %v)", e.Msg.(*message.DownstreamChunkAck).AckID, h.CloseErr)
			}
		}
		k.Label("close-error")
		return nil
	}
	if closeIdx < 0 {
		return fail("C04.4 close", "Close returned nil but the broker saw no DownstreamCloseRequest")
	}
	// 1. ack ids 1,2,3,...
	for i, e := range acks {
		a := e.Msg.(*message.DownstreamChunkAck)
		if a.AckID != uint32(i+1) {
			return fail("C04.1 ack-id", "ack number %d carries ack id %d (ids must increase strictly from 1)", i+1, a.AckID)
		}
		if a.StreamIDAlias != h.State.Alias {
			return fail("C04.1 ack-alias", "ack %d is addressed to stream alias %d, the downstream's alias is %d", a.AckID, a.StreamIDAlias, h.State.Alias)
		}
		// 4. everything before the close request
		if e.Idx > closeIdx {
			return fail("C04.4 ack-after-close", "DownstreamChunkAck %d reached the broker after the DownstreamCloseRequest", a.AckID)
		}
	}
	// 2. results == consumed chunks, exactly once
	got := map[key]int{}
	for _, e := range acks {
		for _, r := range e.Msg.(*message.DownstreamChunkAck).Results {
			got[key{r.StreamIDOfUpstream, r.SequenceNumberInUpstream}]++
			if r.ResultCode != message.ResultCodeSucceeded {
				return fail("C04.2 result-code", "result for %v/%d carries code %d", r.StreamIDOfUpstream, r.SequenceNumberInUpstream, r.ResultCode)
			}
		}
	}
	want := map[key]int{}
	for _, r := range h.Read {
		want[key{r.UpstreamInfo.StreamID, r.SequenceNumber}]++
	}
	for kk, n := range want {
		if got[kk] != n {
			return fail("C04.2 acked-once", "chunk (upstream %v, seq %d) was returned by ReadDataPoints %d time(s) and acknowledged %d time(s) (before the close request)", kk.id, kk.seq, n, got[kk])
		}
	}
	for kk, n := range got {
		if want[kk] == 0 {
			return fail("C04.2 spurious-ack", "a result for (upstream %v, seq %d) x%d was sent but that chunk was never returned to the application", kk.id, kk.seq, n)
		}
	}
	// 3. announcements: alias <-> upstream info is a bijection; same for data ids (with the pre-registered ones)
	upByAlias := map[uint32]message.UpstreamInfo{}
	aliasByUp := map[message.UpstreamInfo]uint32{}
	for _, e := range acks {
		a := e.Msg.(*message.DownstreamChunkAck)
		for al, info := range a.UpstreamAliases {
			if prev, ok := upByAlias[al]; ok {
				return fail("C04.3 upstream-alias-reused", "upstream alias %d announced for %s and again for %s (ack %d)", al, prev.SessionID, info.SessionID, a.AckID)
			}
			if prev, ok := aliasByUp[*info]; ok {
				return fail("C04.3 upstream-two-aliases", "upstream %s was announced under alias %d and again under alias %d (ack %d)", info.SessionID, prev, al, a.AckID)
			}
			upByAlias[al] = *info
			aliasByUp[*info] = al
		}
	}
	idByAlias := map[uint32]message.DataID{}
	aliasByID := map[message.DataID]uint32{}
	for al, id := range h.State.OpenReq.DataIDAliases {
		idByAlias[al] = *id
		aliasByID[*id] = al
	}
	for _, e := range acks {
		a := e.Msg.(*message.DownstreamChunkAck)
		for al, id := range a.DataIDAliases {
			if prev, ok := idByAlias[al]; ok {
				return fail("C04.3 data-id-alias-reused", "data id alias %d announced for %v and again for %v (ack %d)", al, prev, *id, a.AckID)
			}
			if prev, ok := aliasByID[*id]; ok {
				return fail("C04.3 data-id-two-aliases", "data id %v has alias %d and is announced again under alias %d (ack %d)", *id, prev, al, a.AckID)
			}
			idByAlias[al] = *id
			aliasByID[*id] = al
		}
	}
	// every upstream / data id seen in full form by the application was announced
	for _, s := range h.Sent {
		if s.Negative {
			continue
		}
		consumed := false
		for _, r := range h.Read {
			if r.UpstreamInfo.StreamID == s.Info.StreamID && r.SequenceNumber == s.Seq {
				consumed = true
			}
		}
		if !consumed {
			continue
		}
		if !s.UpAliased {
			if _, ok := aliasByUp[s.Info]; !ok {
				return fail("C04.3 upstream-not-announced", "upstream %s was consumed in full form but never announced under an alias", s.Info.SessionID)
			}
		}
		for _, g := range s.Groups {
			if _, ok := aliasByID[g.ID]; !ok {
				return fail("C04.3 data-id-not-announced", "data id %v was consumed in full form but never announced (nor pre-registered)", g.ID)
			}
		}
	}
	k.Label("close=" + c.CloseMode)
	if h.RepeatFullBeforeAck > 0 {
		k.Label("same-upstream-full-again-before-alias-acked")
	}
	if h.FullAfterAnnounce > 0 {
		k.Label("full-form-after-announcement")
	}
	if h.RepeatFullBeforeAck+h.FullAfterAnnounce > 0 || (c.CloseMode == "immediate" && len(h.Read) > 0) {
		k.NonTrivial(ev.JSON(c))
	}
	k.Sample(func() any { return map[string]any{"case": c, "history": summarize(h)} })
	return nil
}

var sub = ev.Sub[dnk.Case]{Name: "downstream-acks", Repeats: 30, Q: 150, T: 5000, Gen: func(t *rapid.T) dnk.Case {
	c := dnk.Gen(t, 60, false)
	// the application may read one downstream from several goroutines: acknowledgement and alias announcement stay exactly-once
	c.Readers = rapid.SampledFrom([]int{1, 1, 2, 4}).Draw(t, "readers")
	if rapid.IntRange(0, 4).Draw(t, "longflush") == 0 {
		// nothing is acknowledged on a timer: everything rides on the flush that Close triggers, within Close's own deadline
		c.AckFlushMs, c.CloseMode, c.CloseCtxMs = 60000, "immediate", 1500
	}
	if rapid.IntRange(0, 3).Draw(t, "datagram") == 0 {
		c.Datagram = true
		if c.QoS == 0 {
			c.QoS = rapid.IntRange(1, 2).Draw(t, "qos-datagram")
		}
	}
	return c
}, Run: run}

func TestProp(t *testing.T)   { sub.Check(t) }
func TestReplay(t *testing.T) { ev.ReplayTest(t, sub) }

// TestRegress: repaired defects (known_findings.json, status fixed).
func TestRegress(t *testing.T) {
	if ev.ShardIndex() != 0 {
		t.Skip("shard 0")
	}
	// C04-alias-per-chunk: the same upstream in full form several times before its alias is acknowledged
	var items []dnk.Item
	for i := 0; i < 6; i++ {
		items = append(items, dnk.Item{Kind: "chunk", Up: i % 2, UpForm: "full", Groups: []dnk.Grp{{ID: 0, Form: "full", Points: 1, Size: 4}}})
	}
	sub.One(t, dnk.Case{Codec: "proto", QoS: 1, Sources: 1, AckFlushMs: 5, Items: items, CloseMode: "settled"})
}
