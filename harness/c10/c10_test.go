// Package c10: Close is final - documented errors afterwards, silence on the wire, notifications at most
// once, no goroutine left behind.
package c10

import (
	"errors"
	"fmt"
	"regexp"
	"runtime"
	"sort"
	"strings"
	"sync"
	"testing"
	"time"

	ierrors "github.com/aptpod/iscp-go/errors"
	"github.com/aptpod/iscp-go/message"
	"pgregory.net/rapid"

	"verifharness/ev"
	"verifharness/scn"
	"verifharness/sim"
)

func TestMain(m *testing.M) { ev.MainExit(m, "C10") }

// Case: a prefix history, an optional link cut shortly before the close plan, the close plan itself.
type Case struct {
	Cfg     scn.Config  `json:"cfg"`
	Prefix  scn.Program `json:"prefix"`  // runs to completion first
	Pending []scn.Op    `json:"pending"` // calls started (each in its own goroutine) right before the close plan and left pending
	CutMsgs int         `json:"cut"`     // -1: no cut; n >= 0: sever the link n client messages before the close plan starts (0 = right before)
	Plan    scn.Program `json:"plan"`    // close plan: goroutines of close-up / close-down / conn-close ops (repeats allowed)
	Redial  string      `json:"redial"`  // instant | paced
	// Stall: the broker stops reading right before the close plan (client writes block, as on a transport with back-pressure)
	// and floods the client with FloodCalls end-to-end calls and stray call acks while the plan is blocked on its writes; it
	// resumes reading StallMs later
	// RefuseDials: with a cut before the close plan, every redial is refused (the broker stays unreachable): Close still ends the
	// redialling, nothing dials after it and no goroutine stays behind (seeded change C10/m5)
	RefuseDials bool `json:"refuse_dials,omitempty"`
	// Datagram: the connection also has an unreliable (datagram) transport; nothing follows the Disconnect on it either (C10/m6)
	Datagram   bool `json:"datagram,omitempty"`
	Stall      bool `json:"stall,omitempty"`
	FloodCalls int  `json:"flood_calls,omitempty"`
	StallMs    int  `json:"stall_ms,omitempty"`
}

const promptness = 2 * time.Second

var goroutineHdr = regexp.MustCompile(`(?m)^goroutine (\d+) \[([^\]]*)\]:$`)

type gor struct {
	id      string
	state   string
	text    string
	created string
}

func libraryGoroutines() map[string]gor {
	buf := make([]byte, 1<<22)
	n := runtime.Stack(buf, true)
	res := map[string]gor{}
	for _, blk := range strings.Split(string(buf[:n]), "\n\n") {
		m := goroutineHdr.FindStringSubmatch(blk)
		if m == nil {
			continue
		}
		if !strings.Contains(blk, "github.com/aptpod/iscp-go/") || strings.Contains(blk, "verifharness/") {
			continue
		}
		g := gor{id: m[1], state: m[2], text: blk}
		if i := strings.LastIndex(blk, "created by "); i >= 0 {
			c := blk[i+len("created by "):]
			if j := strings.IndexAny(c, " \n"); j >= 0 {
				c = c[:j]
			}
			g.created = c
		}
		res[g.id] = g
	}
	return res
}

func run(c Case, k *ev.Case) *ev.Failure {
	before := libraryGoroutines()
	w := sim.NewWorld()
	if c.Redial == "paced" {
		w.DialDelay = 8 * time.Millisecond
	}
	if c.RefuseDials {
		w.FailDial = func(n int) bool { return n > 1 }
	}
	if c.Datagram {
		w.Unreliable = true
	}
	scn.Feed(w.Broker)
	env, err := scn.Start(w, c.Cfg)
	if err != nil {
		w.Dispose()
		return ev.Failf("harness", "connect: %v", err)
	}
	env.SetHangLimit(8 * time.Second)
	env.Run(c.Prefix)
	// back-pressure starts BEFORE the pending calls are issued, so that their writes are in flight (blocked below the disconnect
	// gate) when the close plan runs, not merely their responses outstanding
	stallLink := (*sim.Link)(nil)
	if c.Stall && c.CutMsgs < 0 {
		if stallLink = w.CurrentLink(); stallLink != nil {
			stallLink.StallWrites()
		}
	}
	// pending calls
	var pwg sync.WaitGroup
	pend := make([]*scn.Rec, len(c.Pending))
	for i, op := range c.Pending {
		pwg.Add(1)
		go func(i int, op scn.Op) {
			defer pwg.Done()
			pend[i] = env.Do(100+i, 0, op)
		}(i, op)
	}
	if len(c.Pending) > 0 {
		time.Sleep(500 * time.Microsecond)
	}
	cut := false
	if c.CutMsgs >= 0 {
		if l := w.CurrentLink(); l != nil {
			l.Sever()
			cut = true
			if c.CutMsgs > 0 { // let the client notice / start reconnecting for a moment
				time.Sleep(time.Duration(c.CutMsgs) * time.Duration(c.Cfg.PingMs) * time.Millisecond / 2)
			}
		}
	}
	nPrefix := len(env.Records())
	if c.Stall && !cut && stallLink != nil {
		if l := stallLink; l != nil {
			inc := w.Broker.CurrentInc()
			var fwg sync.WaitGroup
			fwg.Add(1)
			go func() {
				defer fwg.Done()
				time.Sleep(time.Duration(c.StallMs) * time.Millisecond / 2)
				for i := 0; i < c.FloodCalls; i++ {
					inc.Send(&message.DownstreamCall{CallID: fmt.Sprintf("flood-%d", i), RequestCallID: "", SourceNodeID: "flooder", Name: "n", Type: "t", Payload: []byte("x")})
					inc.Send(&message.UpstreamCallAck{CallID: fmt.Sprintf("nobody-%d", i), ResultCode: message.ResultCodeSucceeded, ResultString: "stray"})
				}
				time.Sleep(time.Duration(c.StallMs) * time.Millisecond / 2)
				l.ResumeWrites()
			}()
			defer fwg.Wait()
			k.Label("stalled-peer-with-call-flood")
		}
	}
	env.Run(c.Plan)
	planRecs := env.Records()[nPrefix:]
	connClosed := false
	closedUps, closedDowns := map[string]bool{}, map[string]bool{}
	for _, r := range planRecs {
		if r.Hung {
			continue
		}
		switch r.Op.Kind {
		case "conn-close":
			connClosed = true
		case "close-up":
			if r.Skip == "" {
				closedUps[r.Op.Obj] = true
			}
		case "close-down":
			if r.Skip == "" {
				closedDowns[r.Op.Obj] = true
			}
		}
	}
	hist := func() any {
		return map[string]any{"calls": scn.Summary(env.Records()), "ledger": scn.LedgerSummary(w.Broker.Ledger(), 150)}
	}
	defer w.Dispose()
	for _, r := range planRecs {
		if r.Panic != "" {
			return ev.Failf("C10.1 close-panics", "%s %s panicked: %s", r.Op.Kind, r.Op.Obj, r.Panic).WithHistory(hist())
		}
		if r.Hung {
			// a blocked Close is C08's business: not judged here
			ev.Aborted(r.Op.Kind)
			return nil
		}
	}
	k.Label("redial=" + c.Redial)
	if cut {
		k.Label("link-cut-before-close")
	}
	if len(c.Pending) > 0 {
		k.Label("calls-pending-at-close")
	}
	concurrentClose := len(c.Plan) > 1
	if concurrentClose {
		k.Label("concurrent-close")
	}
	if len(c.Pending) > 0 || cut || concurrentClose || len(env.Ups)+len(env.Downs) > 0 {
		k.NonTrivial(ev.JSON(c))
	}
	k.Sample(func() any { return map[string]any{"case": c, "calls": scn.Summary(env.Records())} })

	// 1. battery of further calls
	type probe struct {
		op     scn.Op
		wantCC bool // must be ErrConnectionClosed
		either bool // ErrConnectionClosed or ErrStreamClosed
	}
	var battery []probe
	if connClosed {
		for _, kind := range []string{"open-up", "open-down", "meta", "basetime", "call", "reply-call", "call-wait", "recv-call", "recv-reply"} {
			battery = append(battery, probe{op: scn.Op{Kind: kind, Obj: "after-close", BG: true}, wantCC: true})
		}
	}
	for name := range env.Ups {
		if closedUps[name] || connClosed {
			for _, kind := range []string{"write", "flush"} {
				battery = append(battery, probe{op: scn.Op{Kind: kind, Obj: name, BG: true}, either: !closedUps[name]})
			}
		}
	}
	for name := range env.Downs {
		if closedDowns[name] || connClosed {
			for _, kind := range []string{"read-data", "read-meta"} {
				battery = append(battery, probe{op: scn.Op{Kind: kind, Obj: name, BG: true}, either: !closedDowns[name]})
			}
		}
	}
	env.SetHangLimit(promptness)
	for i, p := range battery {
		// streams closed a moment ago finish their teardown asynchronously: the statement speaks about calls made after Close returned
		r := env.Do(200, i, p.op)
		if p.either && !r.Hung && r.Panic == "" && r.Error() == nil {
			// a stream whose CONNECTION was closed (the stream itself was not): its teardown follows the connection's
			// asynchronously and the statement speaks about calls "on it" (the closed object). Allow it 1 s to settle.
			for dl := time.Now().Add(time.Second); time.Now().Before(dl) && r.Error() == nil && !r.Hung; {
				time.Sleep(2 * time.Millisecond)
				r = env.Do(200, i, p.op)
			}
			k.Label("stream-of-closed-conn-settled-late")
		}
		if r.Panic != "" {
			return ev.Failf("C10.1 call-after-close-panics", "%s %s after Close panicked: %s", p.op.Kind, p.op.Obj, r.Panic).WithHistory(hist())
		}
		if r.Hung {
			if known, id := knownBlockedAfterClose(p.op.Kind); known {
				ev.Excluded(1)
				_ = id
				continue
			}
			return ev.Failf("C10.1 call-after-close-blocks", "%s %s (background context) issued after Close had returned is still blocked after %v", p.op.Kind, p.op.Obj, promptness).WithHistory(hist())
		}
		e := r.Error()
		if e == nil {
			return ev.Failf("C10.1 call-after-close-succeeds", "%s %s issued after Close had returned succeeded silently", p.op.Kind, p.op.Obj).WithHistory(hist())
		}
		if !errors.Is(e, ierrors.ErrISCP) {
			if known, _ := knownWrongErrorAfterClose(p.op.Kind, e); known {
				ev.Excluded(1)
				continue
			}
			return ev.Failf("C10.1 not-a-library-error", "%s %s after Close returned %q, which is not recognisable as a library error", p.op.Kind, p.op.Obj, e).WithHistory(hist())
		}
		switch {
		case p.wantCC:
			if !errors.Is(e, ierrors.ErrConnectionClosed) {
				return ev.Failf("C10.1 wrong-sentinel", "%s after Conn.Close returned %q, not the connection-closed error", p.op.Kind, e).WithHistory(hist())
			}
		case p.either:
			if !errors.Is(e, ierrors.ErrConnectionClosed) && !errors.Is(e, ierrors.ErrStreamClosed) {
				return ev.Failf("C10.1 wrong-sentinel", "%s %s on a stream of a closed connection returned %q", p.op.Kind, p.op.Obj, e).WithHistory(hist())
			}
		default:
			if !errors.Is(e, ierrors.ErrStreamClosed) {
				return ev.Failf("C10.1 wrong-sentinel", "%s %s after the stream's Close returned %q, not the stream-closed error", p.op.Kind, p.op.Obj, e).WithHistory(hist())
			}
		}
	}
	// repeated Close calls return promptly
	if connClosed {
		r := env.Do(300, 0, scn.Op{Kind: "conn-close", CtxMs: 500})
		if r.Hung || r.Panic != "" {
			return ev.Failf("C10.1 repeated-close", "a second Conn.Close hung=%v panic=%q", r.Hung, r.Panic).WithHistory(hist())
		}
	}
	for name := range closedUps {
		r := env.Do(301, 0, scn.Op{Kind: "close-up", Obj: name, CtxMs: 500})
		if r.Hung || r.Panic != "" {
			return ev.Failf("C10.1 repeated-close", "a second Upstream.Close of %s hung=%v panic=%q", name, r.Hung, r.Panic).WithHistory(hist())
		}
	}
	for name := range closedDowns {
		r := env.Do(302, 0, scn.Op{Kind: "close-down", Obj: name, CtxMs: 500})
		if r.Hung || r.Panic != "" {
			return ev.Failf("C10.1 repeated-close", "a second Downstream.Close of %s hung=%v panic=%q", name, r.Hung, r.Panic).WithHistory(hist())
		}
	}
	// pending calls must have come back by now (Close ends them)
	pdone := make(chan struct{})
	go func() { pwg.Wait(); close(pdone) }()
	if connClosed {
		select {
		case <-pdone:
		case <-time.After(promptness + time.Duration(c.Cfg.CtxMs)*time.Millisecond):
			return ev.Failf("C10.1 pending-call-survives-close", "a call that was pending when Conn.Close ran is still blocked").WithHistory(hist())
		}
	}
	if !connClosed {
		// make the connection go away so that the census below is meaningful
		env.SetHangLimit(5 * time.Second)
		env.Do(400, 0, scn.Op{Kind: "conn-close", CtxMs: 1000})
	}
	// 2. wire silence after Disconnect, no reconnect
	time.Sleep(time.Duration(10*c.Cfg.PingMs) * time.Millisecond)
	led := w.Broker.Ledger()
	discIdx := map[int]int{}
	discSeq := map[int]uint64{} // the client's write sequence number of its Disconnect, per connection
	lastDisc := -1
	for _, e := range led {
		if e.In && e.Kind == "Disconnect" && !strings.HasPrefix(e.Msg.(*message.Disconnect).ResultString, "sim:") {
			if _, ok := discIdx[e.Inc]; !ok {
				discIdx[e.Inc] = e.Idx
				discSeq[e.Inc] = e.WSeq
			}
			lastDisc = e.Idx
		}
	}
	for _, e := range led {
		if !e.In {
			continue
		}
		// "after": in the order of the client's writes (the reliable and the datagram side of a connection are read by two broker
		// goroutines, so the order of the ledger says nothing across them - an earlier version used it and raised a false alarm
		// under load)
		if _, ok := discIdx[e.Inc]; ok && e.WSeq > discSeq[e.Inc] && e.Kind != "Ping" && e.Kind != "Pong" {
			return ev.Failf("C10.2 message-after-disconnect", "the client sent %s on connection %d after its Disconnect", e.Kind, e.Inc).WithHistory(hist())
		}
		if lastDisc >= 0 && e.Idx > lastDisc && e.Kind == "ConnectRequest" {
			return ev.Failf("C10.2 reconnect-after-close", "a new ConnectRequest arrived after the client's Disconnect").WithHistory(hist())
		}
	}
	// 2b. no connection is kept: when Close has returned (and a redial that was in progress had its time), every transport the
	// client dialled has been closed by the client (seeded change C10/m2: a redial completing during Close stayed connected)
	{
		for _, l := range w.Links() {
			select {
			case <-l.ClientClosed():
			default:
				if !l.Dead() {
					return ev.Failf("C10.2 connection-left-open", "connection %d is still open at the client %d ms after Conn.Close returned (no Disconnect, transport not closed)", l.Index, 10*c.Cfg.PingMs).WithHistory(hist())
				}
			}
		}
	}
	// 2c. nobody dials after Close returned
	if c.RefuseDials {
		n0 := len(w.Attempts())
		time.Sleep(450 * time.Millisecond) // the library's back-off between refused attempts starts at 100 ms and doubles
		if n1 := len(w.Attempts()); n1 > n0+1 {
			return ev.Failf("C10.2 redial-after-close", "%d further dial attempts were made in the 450 ms after Conn.Close had returned (broker unreachable since the cut)", n1-n0).WithHistory(hist())
		}
	}
	// 3. notifications at most once per object
	evs := env.Events.Snapshot()
	for n, v := range evs.UpClosed {
		if len(v) > 1 {
			return ev.Failf("C10.3 closed-event-twice", "upstream %s: closed handler fired %d times", n, len(v)).WithHistory(hist())
		}
	}
	for n, v := range evs.DownClosed {
		if len(v) > 1 {
			return ev.Failf("C10.3 closed-event-twice", "downstream %s: closed handler fired %d times", n, len(v)).WithHistory(hist())
		}
	}
	outages := len(w.Links())
	if evs.Disconnected > outages {
		return ev.Failf("C10.3 disconnected-event", "disconnected handler fired %d times for %d connections", evs.Disconnected, outages).WithHistory(hist())
	}
	// 4. census: the peer side is closed too
	for _, l := range w.Links() {
		l.Sever()
	}
	var survivors []gor
	deadline := time.Now().Add(3 * time.Second)
	for {
		survivors = survivors[:0]
		for id, g := range libraryGoroutines() {
			if _, old := before[id]; !old {
				survivors = append(survivors, g)
			}
		}
		if len(survivors) == 0 || time.Now().After(deadline) {
			break
		}
		time.Sleep(5 * time.Millisecond)
	}
	if len(survivors) > 0 {
		sites := map[string]int{}
		for _, g := range survivors {
			sites[g.created+" ["+g.state+"]"]++
		}
		var keys []string
		for s := range sites {
			keys = append(keys, fmt.Sprintf("%s x%d", s, sites[s]))
		}
		sort.Strings(keys)
		unknown := false
		for _, g := range survivors {
			if !knownLeakSite(g.created) {
				unknown = true
			}
		}
		if unknown {
			return ev.Failf("C10.4 goroutine-left-behind", "%d library goroutine(s) survive 3 s after both sides were closed: %v", len(survivors), keys).WithHistory(map[string]any{"first": survivorTexts(survivors), "calls": scn.Summary(env.Records())})
		}
		ev.Excluded(1)
	}
	return nil
}

func survivorTexts(gs []gor) string {
	var b strings.Builder
	for _, g := range gs {
		b.WriteString(g.text)
		b.WriteString("\n\n")
	}
	return b.String()
}

// known-finding predicates (each one names exactly one class; see known_findings.json)
func knownBlockedAfterClose(kind string) (bool, string)             { return false, "" }
func knownWrongErrorAfterClose(kind string, e error) (bool, string) { return false, "" }
func knownLeakSite(site string) bool                                { return false }

func gen(t *rapid.T) Case {
	c := Case{Cfg: scn.Config{PingMs: 20, PingTimeoutMs: 1500, CtxMs: rapid.SampledFrom([]int{100, 300}).Draw(t, "ctx"), CloseTimeoutMs: 100},
		CutMsgs: -1, Redial: rapid.SampledFrom([]string{"paced", "paced", "instant"}).Draw(t, "redial")}
	var ups, downs []string
	nu := rapid.IntRange(0, 2).Draw(t, "nups")
	nd := rapid.IntRange(0, 2).Draw(t, "ndowns")
	var pre []scn.Op
	for i := 0; i < nu; i++ {
		n := fmt.Sprintf("u%d", i)
		ups = append(ups, n)
		pre = append(pre, scn.Op{Kind: "open-up", Obj: n, QoS: rapid.IntRange(0, 2).Draw(t, "qos")}, scn.Op{Kind: "write", Obj: n, N: 2})
		if rapid.Bool().Draw(t, "flush") {
			pre = append(pre, scn.Op{Kind: "flush", Obj: n})
		}
	}
	for i := 0; i < nd; i++ {
		n := fmt.Sprintf("d%d", i)
		downs = append(downs, n)
		pre = append(pre, scn.Op{Kind: "open-down", Obj: n, QoS: rapid.IntRange(0, 2).Draw(t, "qos")})
		if rapid.Bool().Draw(t, "read") {
			pre = append(pre, scn.Op{Kind: "read-data", Obj: n})
		}
	}
	if rapid.Bool().Draw(t, "meta") {
		pre = append(pre, scn.Op{Kind: "meta"})
	}
	c.Prefix = scn.Program{pre}
	// pending calls
	np := rapid.IntRange(0, 3).Draw(t, "npending")
	for i := 0; i < np; i++ {
		kinds := []string{"recv-call", "recv-reply", "meta", "call"}
		for _, d := range downs {
			kinds = append(kinds, "read-data:"+d, "read-meta:"+d)
		}
		for _, u := range ups {
			kinds = append(kinds, "flush:"+u)
		}
		kk := rapid.SampledFrom(kinds).Draw(t, "pendkind")
		op := scn.Op{Kind: kk, CtxMs: 1500}
		if i := strings.Index(kk, ":"); i >= 0 {
			op.Kind, op.Obj = kk[:i], kk[i+1:]
		}
		c.Pending = append(c.Pending, op)
	}
	if rapid.IntRange(0, 2).Draw(t, "cut") == 0 {
		c.CutMsgs = rapid.IntRange(0, 3).Draw(t, "cutmsgs")
		c.RefuseDials = rapid.IntRange(0, 2).Draw(t, "refusedials") == 0
	} else if rapid.IntRange(0, 3).Draw(t, "stall") == 0 {
		c.Stall, c.FloodCalls, c.StallMs = true, rapid.SampledFrom([]int{0, 5, 12, 40}).Draw(t, "flood"), rapid.SampledFrom([]int{10, 30}).Draw(t, "stallms")
	}
	// close plan
	var closes []scn.Op
	for _, u := range ups {
		if rapid.Bool().Draw(t, "closeup") {
			closes = append(closes, scn.Op{Kind: "close-up", Obj: u})
		}
	}
	for _, d := range downs {
		if rapid.Bool().Draw(t, "closedown") {
			closes = append(closes, scn.Op{Kind: "close-down", Obj: d})
		}
	}
	if rapid.IntRange(0, 3).Draw(t, "connclose") > 0 {
		closes = append(closes, scn.Op{Kind: "conn-close"})
	}
	if rapid.Bool().Draw(t, "repeat") && len(closes) > 0 {
		closes = append(closes, closes[rapid.IntRange(0, len(closes)-1).Draw(t, "rep")])
	}
	c.Datagram = rapid.IntRange(0, 3).Draw(t, "datagram") == 0
	closes = rapid.Permutation(closes).Draw(t, "order")
	ng := rapid.IntRange(1, 3).Draw(t, "closers")
	c.Plan = make(scn.Program, ng)
	for i, op := range closes {
		g := 0
		if ng > 1 {
			g = rapid.IntRange(0, ng-1).Draw(t, "g")
		}
		_ = i
		c.Plan[g] = append(c.Plan[g], op)
	}
	return c
}

var sub = ev.Sub[Case]{Name: "close", Repeats: 10, Q: 25, T: 600, Gen: gen, Run: run}

func TestProp(t *testing.T)   { sub.Check(t) }
func TestReplay(t *testing.T) { ev.ReplayTest(t, sub) }

// TestRegress: repaired defects (known_findings.json, status fixed).
func TestRegress(t *testing.T) {
	if ev.ShardIndex() != 0 {
		t.Skip("shard 0")
	}
	cfg := scn.Config{PingMs: 20, PingTimeoutMs: 1500, CtxMs: 100, CloseTimeoutMs: 100}
	pre := scn.Program{{{Kind: "open-up", Obj: "u0", QoS: 1}, {Kind: "write", Obj: "u0", N: 2}, {Kind: "flush", Obj: "u0"}, {Kind: "open-down", Obj: "d0", QoS: 2}, {Kind: "read-data", Obj: "d0"}, {Kind: "meta"}}}
	// C10-sendmetadata-after-close-blocks / C10-receive-reply-wrong-error / C10-read-after-close: plain close, then the battery
	sub.One(t, Case{Cfg: cfg, Prefix: pre, CutMsgs: -1, Plan: scn.Program{{{Kind: "close-down", Obj: "d0"}, {Kind: "conn-close"}}}, Redial: "paced"})
	// C10-close-during-reconnect-panic and C10-supervisor-leak: Close while the redial is in progress
	for _, cut := range []int{0, 1, 2, 3} {
		sub.One(t, Case{Cfg: cfg, Prefix: pre, CutMsgs: cut, Plan: scn.Program{{{Kind: "conn-close"}}}, Redial: "paced", Pending: []scn.Op{{Kind: "flush", Obj: "u0", CtxMs: 1500}}})
		sub.One(t, Case{Cfg: cfg, Prefix: pre, CutMsgs: cut, Plan: scn.Program{nil}, Redial: "paced"})
	}
	// seeded change C10/m5: the broker stays unreachable after the cut, Close ends the redialling
	for _, cut := range []int{0, 2} {
		sub.One(t, Case{Cfg: cfg, Prefix: pre, CutMsgs: cut, Plan: scn.Program{{{Kind: "conn-close"}}}, Redial: "paced", RefuseDials: true})
	}
	// seeded change C10/m3 (a write that passed the disconnect gate completes after the Disconnect): writes of every kind are in
	// flight, blocked by back-pressure, when Close runs; whatever order they leave in, nothing may follow the Disconnect
	for i := 0; i < 6; i++ {
		sub.One(t, Case{Cfg: cfg, Prefix: pre, CutMsgs: -1, Plan: scn.Program{{{Kind: "conn-close"}}}, Redial: "paced", Stall: true, FloodCalls: 0, StallMs: 10 + 10*(i%3),
			Pending: []scn.Op{{Kind: "call", CtxMs: 1500}, {Kind: "meta", CtxMs: 1500}, {Kind: "flush", Obj: "u0", CtxMs: 1500}}})
	}
	// seeded change C10/m1: the peer stops reading, Close blocks on its Disconnect, calls keep arriving
	sub.One(t, Case{Cfg: cfg, Prefix: pre, CutMsgs: -1, Plan: scn.Program{{{Kind: "conn-close"}}}, Redial: "paced", Stall: true, FloodCalls: 40, StallMs: 30})
	sub.One(t, Case{Cfg: cfg, Prefix: pre, CutMsgs: -1, Plan: scn.Program{{{Kind: "close-up", Obj: "u0"}, {Kind: "conn-close"}}}, Redial: "paced", Stall: true, FloodCalls: 12, StallMs: 10})
}
