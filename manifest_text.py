HOOK_COMMITS = ["cf7ba72"]
NOT_APPLICABLE = {}
TEXT = {
 "C17": {
  "level_text": "exhaustive enumeration of the finite parameter grid named in the property through all four carriers, plus randomized search (rapid) over arbitrary key/value lists and byte strings with a reject-or-faithful oracle and an independent reader of the binary form; thorough adds native coverage-guided fuzzing of the binary form",
  "level_note": "trusts encoding/json, net/url and the Go toolchain; the oracle's notion of 'faithful' is stated in the evidence assumptions",
  "technique": "property-based testing (rapid): exhaustive grid + random generation; round-trip, reject-or-faithful and metamorphic (base-independence) oracles; native go fuzzing in thorough"},
 "C01": {
  "level_text": "randomized exploration of upstream write/flush/close histories from 1-4 goroutines against a scripted in-memory broker; every history is judged by a ledger oracle (multiset equality after alias resolution, sequence numbers, close totals, hook ledgers). Schedules are sampled (GOMAXPROCS 1/2/4/16, generated pacing), not enumerated.",
  "level_note": "trusts the in-memory link (loss-free FIFO), the library's own codecs inside the broker (judged by C11/C12) and the Go scheduler as a source of interleavings; a green run is evidence, each reported failure is a real history",
  "technique": "property-based testing (rapid) of concurrent operation histories with a reference-model/ledger oracle"},
 "C20": {
  "level_text": "randomized exploration of write/flush/state histories: for deterministic policies a single-goroutine history has exactly one legal chunk partition (modulo cancelled flushes), which a reference model predicts and the broker ledger must equal; concurrent histories are judged by barrier/conservation invariants; interval policies by a latency bound with generous slack",
  "level_note": "trusts the in-memory link and the scripted broker; interval latency uses wall-clock with 2 s slack; schedules are sampled",
  "technique": "model-based property testing (rapid): reference model of the flush policies vs. chunks observed at an in-memory broker"},
 "C11": {
  "level_text": "exhaustive enumeration of the finite grid (message type x variant x field path x enum value, the part of the quantifier that is finite) plus randomized search over field contents, each judged by round-trip against an independent canonical form, by cross-codec agreement and by byte-count identities; the generator's registry is checked against the package source so a new type or constant cannot go untested",
  "level_note": "trusts gogo/protobuf and jsonpb wire formats; the canonical form is written in the harness from the documented resolutions, not derived from the converters",
  "technique": "property-based testing (rapid) + exhaustive grid by reflection; round-trip and differential (protobuf vs JSON) oracles"},
 "C14": {
  "level_text": "complete enumeration of all permutations x loss subsets up to 6 segments (the bound named in the property) and of two interleaved 3-segment messages, plus randomized search beyond (larger messages, several messages in flight, sequence wrap-around, expiry clock) against a reference model of the reassembly table; arbitrary datagrams through the direct and the public (quic.New) path with process-death detection",
  "level_note": "the direct path uses verif-tagged re-exports of internal/segment (add-only hook); the public path runs the real transport/quic.Transport over an in-memory quic.Connection",
  "technique": "exhaustive small-scope enumeration + model-based property testing (rapid) + hostile-input generation"},
}
